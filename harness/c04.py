"""C04 — shape, dims/dimsd and the N-d application contract.

Models (Coq): State/DotDispatch.v (dot / matvec / matmat size checks, reshaped
decorator, solver wrapper, attribute setters and the constructions of
_adjoint/_transpose/dot(operator)/__add__/scaling), State/ConfigFlag.v (global
flag + its two context managers).  Theorems: Props/C04.v.

Correspondence (all comparisons evaluated inside Coq, Corr/CheckC04.v):
 (a) flag programs: every program of depth <= 3 (thorough: + sampled depth 4/5)
     executed with the real context managers / setter / the
     disable_ndarray_multiplication decorator and injected exceptions; final
     flag, escaped exception and observed trace vs ConfigFlag.run3;
 (b) for a subsample of zoo operators + stacks with forceflat variants +
     compound expressions: every input layout x both flag values: outcome
     class, route and output shape vs dot_dispatch; direct matvec / rmatvec /
     matmat / rmatmat calls vs *_shape; attributes of leaves and of A.H, A.T,
     A@B, A+B, c*A vs the attrs model; setter sequences on a bare
     LinearOperator; the solver wrapper; values: (Op @ x).ravel() and matmat
     vs column-wise Op.matvec."""
import itertools
import json
import os
import subprocess
import time

import numpy as np

from . import common, zoo

PID = "C04"
MYV = ["State/ConfigFlag", "State/DotDispatch", "Corr/CheckC04", "Props/C04"]

# genuine defects of the unchanged code proposed for known_findings.json (none at present: the
# shape-setter hole `Op.dims=(5,); Op.shape=(3,4)` was fixed in /repo by commit 55eb95e)
PROPOSED_KNOWN = []


# ------------------------------------------------------------------ coq build of own files
def build_own():
    th = os.path.join(common.COQDIR, "theories")
    for m in MYV:
        v, vo = os.path.join(th, m + ".v"), os.path.join(th, m + ".vo")
        deps = [os.path.join(th, d + ".vo") for d in MYV[:MYV.index(m)]]
        stale = (not os.path.exists(vo)) or os.path.getmtime(vo) < os.path.getmtime(v) or \
            any(os.path.exists(d) and os.path.getmtime(d) > os.path.getmtime(vo) for d in deps)
        if stale:
            p = subprocess.run(["timeout", "600", "coqc", "-Q", "theories", "PV", "theories/%s.v" % m], cwd=common.COQDIR,
                               stdout=subprocess.PIPE, stderr=subprocess.STDOUT, text=True)
            if p.returncode != 0:
                raise SystemExit("coqc %s failed:\n%s" % (m, p.stdout[-3000:]))
    bad = subprocess.run("grep -nE '\\b(Admitted|admit|Axiom|Parameter|Conjecture)\\b' " +
                         " ".join("theories/%s.v" % m for m in MYV) + " || true", shell=True, cwd=common.COQDIR,
                         stdout=subprocess.PIPE, text=True).stdout.strip()
    if bad:
        raise SystemExit("forbidden declaration:\n" + bad)


# ------------------------------------------------------------------ (a) flag programs
LEAVES = [("set", True), ("set", False), ("obs",), ("skip",), ("raise",)]


def progs_upto(d):
    if d == 1:
        return list(LEAVES)
    sub = progs_upto(d - 1)
    out = list(LEAVES)
    for k in ("we", "wd", "catch"):
        out += [(k, p) for p in sub]
    out += [("seq", p, q) for p in sub for q in sub]
    return out


def rand_prog(r, d):
    if d <= 1 or r.random() < 0.12:
        return r.choice(LEAVES)
    k = r.choice(["we", "wd", "wd", "we", "catch", "seq", "seq", "seq"])
    if k == "seq":
        return ("seq", rand_prog(r, d - 1), rand_prog(r, d - 1))
    return (k, rand_prog(r, d - 1))


def prog_lit(p):
    k = p[0]
    if k == "set":
        return "(SetFlag %s)" % ("true" if p[1] else "false")
    if k in ("obs", "skip", "raise"):
        return {"obs": "Obs", "skip": "Skip", "raise": "Raise"}[k]
    if k == "seq":
        return "(Seq %s %s)" % (prog_lit(p[1]), prog_lit(p[2]))
    return "(%s %s)" % ({"we": "WithEnabled", "wd": "WithDisabled", "catch": "Catch"}[k], prog_lit(p[1]))


def prog_str(p):
    k = p[0]
    if k == "set":
        return "set(%s)" % p[1]
    if k in ("obs", "skip", "raise"):
        return k
    if k == "seq":
        return "%s; %s" % (prog_str(p[1]), prog_str(p[2]))
    return "%s{%s}" % ({"we": "with enabled", "wd": "with disabled", "catch": "try"}[k], prog_str(p[1]))


class Injected(Exception):
    pass


def execp(p, tr, deco):
    import pylops
    from pylops.utils.decorators import disable_ndarray_multiplication
    k = p[0]
    if k == "set":
        pylops.set_ndarray_multiplication(p[1])
    elif k == "obs":
        tr.append(bool(pylops.get_ndarray_multiplication()))
    elif k == "skip":
        pass
    elif k == "raise":
        raise Injected()
    elif k == "seq":
        execp(p[1], tr, deco)
        execp(p[2], tr, deco)
    elif k == "we":
        with pylops.enabled_ndarray_multiplication():
            execp(p[1], tr, deco)
    elif k == "wd":
        if deco:
            disable_ndarray_multiplication(lambda: execp(p[1], tr, deco))()
        else:
            with pylops.disabled_ndarray_multiplication():
                execp(p[1], tr, deco)
    elif k == "catch":
        try:
            execp(p[1], tr, deco)
        except Injected:
            pass


def run_impl(p, f0, deco=False):
    import pylops
    tr = []
    raised = False
    try:
        pylops.set_ndarray_multiplication(f0)
        try:
            execp(p, tr, deco)
        except Injected:
            raised = True
        final = bool(pylops.get_ndarray_multiplication())
    finally:
        pylops.set_ndarray_multiplication(True)
    return final, raised, tr


def pyrun(p, f):
    """Reference interpreter (mirror of ConfigFlag.run3) used only to shrink /
    describe failing programs and to build the canary; the verdict is Coq's."""
    k = p[0]
    if k == "set":
        return p[1], False, []
    if k == "obs":
        return f, False, [f]
    if k == "skip":
        return f, False, []
    if k == "raise":
        return f, True, []
    if k == "seq":
        f1, r1, t1 = pyrun(p[1], f)
        if r1:
            return f1, True, t1
        f2, r2, t2 = pyrun(p[2], f1)
        return f2, r2, t1 + t2
    if k in ("we", "wd"):
        _, r1, t1 = pyrun(p[1], k == "we")
        return f, r1, t1
    f1, _, t1 = pyrun(p[1], f)
    return f1, False, t1


def subprogs(p):
    yield p
    for q in p[1:]:
        if isinstance(q, tuple):
            yield from subprogs(q)


def shrink_flag(p, deco):
    """Smallest sub-program on which the implementation deviates, preferring a
    context manager that does not restore the flag."""
    cands = sorted(set(subprogs(p)), key=lambda q: len(prog_str(q)))
    for want_with in (True, False):
        for q in cands:
            if want_with and q[0] not in ("we", "wd"):
                continue
            for f0 in (True, False):
                got = run_impl(q, f0, deco)
                exp = pyrun(q, f0)
                if got != exp:
                    what = "flag not restored" if (q[0] in ("we", "wd") and got[0] != f0) else \
                        ("exception swallowed/invented" if got[1] != exp[1] else
                         ("flag inside the block differs" if got[2] != exp[2] else "final flag differs"))
                    return {"kind": "flag", "program": q, "program_str": prog_str(q), "init": f0, "decorator": deco,
                            "observed": {"final": got[0], "raised": got[1], "trace": got[2]},
                            "expected": {"final": exp[0], "raised": exp[1], "trace": exp[2]}, "what": what}
    return None


def blit(b):
    return "true" if b else "false"


def flag_cases(tier):
    ps = progs_upto(3)
    if tier == "thorough":
        r = common.rng(PID, "flagprogs")
        seen = set(ps)
        for d in (4, 5):
            n = 0
            while n < 15000:
                q = rand_prog(r, d)
                if q not in seen:
                    seen.add(q)
                    ps.append(q)
                    n += 1
    cases = []
    for p in ps:
        for f0 in (True, False):
            for deco in ((False, True) if any(q[0] == "wd" for q in subprogs(p)) else (False,)):
                cases.append({"p": p, "f0": f0, "deco": deco, "obs": run_impl(p, f0, deco)})
    return cases


def flag_lit(i, c):
    fin, rs, tr = c["obs"]
    return "{| f_id := @ID@; f_prog := %s; f_init := %s; f_final := %s; f_raised := %s; f_trace := [%s] |}" % (
        prog_lit(c["p"]), blit(c["f0"]), blit(fin), blit(rs), "; ".join(blit(b) for b in tr))


# ------------------------------------------------------------------ (b) operators
def prod(d):
    return zoo.prod(d)


def _nd_leaf(tag, dims, dimsd=None):
    """operator with N-d dims (and optionally different dimsd) for the stacks"""
    import pylops
    dims = tuple(dims)
    if dimsd is None:
        return pylops.Diagonal(zoo.ivec(("c04", tag, dims), prod(dims)).reshape(dims))
    return pylops.Sum(dims, axis=0)


def _extras():
    import pylops
    E = {}
    for ff in (None, True, False):
        E["VStackND/ff=%s" % ff] = lambda ff=ff: pylops.VStack([_nd_leaf(1, (2, 3)), _nd_leaf(2, (2, 3))], forceflat=ff)
        E["HStackND/ff=%s" % ff] = lambda ff=ff: pylops.HStack([_nd_leaf(3, (2, 3)), _nd_leaf(4, (2, 3))], forceflat=ff)
        E["BlockDiagND/ff=%s" % ff] = lambda ff=ff: pylops.BlockDiag([_nd_leaf(5, (2, 3)), _nd_leaf(6, (2, 3))], forceflat=ff)
        E["BlockND/ff=%s" % ff] = lambda ff=ff: pylops.Block([[_nd_leaf(7, (2, 2)), _nd_leaf(8, (2, 2))],
                                                             [_nd_leaf(9, (2, 2)), _nd_leaf(10, (2, 2))]], forceflat=ff)
    E["VStackMixedDims"] = lambda: pylops.VStack([_nd_leaf(11, (2, 3)), pylops.Identity(6)])
    E["HStackMixedDimsd"] = lambda: pylops.HStack([_nd_leaf(12, (2, 3)), pylops.Identity(6)])
    E["BlockDiagMixed"] = lambda: pylops.BlockDiag([_nd_leaf(13, (2, 3)), pylops.Identity(4)])
    E["VStackSum"] = lambda: pylops.VStack([pylops.Sum((3, 2), axis=0), pylops.Sum((3, 2), axis=0)])
    E["Identity12x6"] = lambda: pylops.Identity(12, 6)
    E["Diag(5,1)"] = lambda: pylops.Diagonal(zoo.ivec("c04d51", 5).reshape(5, 1))
    E["Diag(1,5)"] = lambda: pylops.Diagonal(zoo.ivec("c04d15", 5).reshape(1, 5))
    E["MatrixMult-otherdims"] = lambda: pylops.MatrixMult(zoo.ivec("c04mm", 6).reshape(3, 2), otherdims=(2, 2))
    for ff in (None, True, False):
        E["I54/ff=%s" % ff] = lambda ff=ff: pylops.Identity((5, 4), forceflat=ff)
    E["D54"] = lambda: pylops.FirstDerivative((5, 4), axis=0)
    E["Diag223"] = lambda: _nd_leaf(14, (2, 2, 3))
    E["Restriction54"] = lambda: pylops.Restriction((5, 4), [0, 2, 3], axis=1)
    E["MatrixMult32"] = lambda: pylops.MatrixMult((zoo.ivec("c04mm32", 24).reshape(4, 6) / 3).astype("float32"), dtype="float32")
    E["Diagonal32"] = lambda: pylops.Diagonal((zoo.ivec("c04d32", 7) / 3).astype("float32"), dtype="float32")
    E["FunctionOperator"] = lambda: pylops.FunctionOperator(lambda x: 2 * x[:3], lambda y: 2 * np.concatenate([y, np.zeros((2,) + y.shape[1:])]), 3, 5)
    return E


EXTRAS = None


def build(spec):
    """spec: {"zoo": [family, params]} | {"extra": name} | {"expr": [op, spec...]}"""
    global EXTRAS
    if EXTRAS is None:
        EXTRAS = _extras()
    if "zoo" in spec:
        return zoo.build(spec["zoo"][0], spec["zoo"][1])
    if "extra" in spec:
        return EXTRAS[spec["extra"]]()
    op, *args = spec["expr"]
    a = build(args[0])
    if op == "H":
        return a.H
    if op == "T":
        return a.T
    if op == "scal":
        return 3 * a
    if op == "neg":
        return -a
    if op == "conj":
        return a.conj()
    if op == "pow":
        return a ** 2
    b = build(args[1])
    if op == "mul":
        return a @ b
    if op == "add":
        return a + b
    if op == "sub":
        return a - b
    raise ValueError(op)


def attrs_of(op):
    ff = op.forceflat
    return {"shape": [int(op.shape[0]), int(op.shape[1])], "dims": [int(a) for a in op.dims],
            "dimsd": [int(a) for a in op.dimsd], "ff": None if ff is None else bool(ff),
            "cplx": bool(np.iscomplexobj(np.ones(1, dtype=getattr(op, "dtype", None) or "float64")))}


def select_ops(tier):
    """Subsample of the zoo: per family the configurations with the most
    'interesting' dims/dimsd (dims != dimsd, N-d), + extras."""
    per = 1 if tier == "quick" else 4
    TWO = {"Sum", "Pad", "Restriction", "FFT", "FFT2D", "Identity", "Zero", "VStack", "HStack", "BlockDiag", "Block", "Transpose", "CausalIntegration",
           "MatrixMult", "Diagonal", "FirstDerivative", "Bilinear", "Interp", "Kronecker", "Spread", "Gradient", "Fredholm1", "Sliding2D", "Patch2D",
           "Radon2D", "DWT2D", "MDC", "PoststackLinearModelling", "PrestackLinearModelling", "AVOLinearModelling", "Convolve2D", "Real"}
    g = zoo.grid("quick")
    byfam = {}
    for fam, prm in g:
        if prm.get("engine") == "numba" or prm.get("nproc", 1) > 1:
            continue
        byfam.setdefault(fam, []).append(prm)
    specs = []
    for fam in sorted(byfam):
        cands = []
        lst = byfam[fam]
        step = max(1, len(lst) // 14)
        for prm in lst[::step][:14]:
            try:
                op = zoo.build(fam, prm)
                a = attrs_of(op)
            except Exception:
                continue
            if a["shape"][0] * a["shape"][1] > 4000:
                continue
            score = 2 * (a["dims"] != a["dimsd"]) + (len(a["dims"]) > 1) + (len(a["dimsd"]) > 1) + (len(a["dims"]) != len(a["dimsd"]))
            cands.append((-score, len(cands), prm))
        cands.sort(key=lambda t: (t[0], t[1]))
        for _, _, prm in cands[:per + (1 if fam in TWO else 0)]:
            specs.append({"zoo": [fam, prm]})
    global EXTRAS
    if EXTRAS is None:
        EXTRAS = _extras()
    specs += [{"extra": k} for k in EXTRAS]
    return specs


def compound_specs(leaves, tier):
    """A.H, A.T, c*A, -A, A**2 for a rotating subset; products / sums of
    shape-compatible pairs (including N-d dims on the inner side)."""
    r = common.rng(PID, "compound")
    out = []
    info = []
    for s in leaves:
        try:
            o = build(s)
            info.append((s, dict(attrs_of(o), clin=bool(getattr(o, "clinear", True)))))
        except Exception:
            pass
    for i, (s, a) in enumerate(info):
        if i % 2 == 0 or a["dims"] != a["dimsd"]:
            out.append({"expr": ["H", s]})
        if i % 8 == 0:
            out.append({"expr": ["T", s]})
        if i % 9 == 1:
            out.append({"expr": ["scal", s]})
        if i % 11 == 2:
            out.append({"expr": ["neg", s]})
        if a["shape"][0] == a["shape"][1] and i % 6 == 3:
            out.append({"expr": ["pow", s]})
    # real with real, complex with complex (a real operator may allocate real buffers and cannot take complex input)
    pairs = [(s, t) for (s, a) in info for (t, b) in info if a["shape"][1] == b["shape"][0]
             and merge_ok(a["ff"], b["ff"]) and a["cplx"] == b["cplx"] and a["clin"] and b["clin"]]
    r.shuffle(pairs)
    # prefer pairs whose attributes differ (dims of right factor != dims of left, N-d)
    pairs.sort(key=lambda st: 0)
    # prefer products whose factors have different, N-d dims conventions
    ia = {json.dumps(s, sort_keys=True): a for s, a in info}
    pairs.sort(key=lambda st: -((len(ia[json.dumps(st[0], sort_keys=True)]["dimsd"]) > 1) + (len(ia[json.dumps(st[1], sort_keys=True)]["dims"]) > 1)
                                + (ia[json.dumps(st[0], sort_keys=True)]["dims"] != ia[json.dumps(st[1], sort_keys=True)]["dimsd"])))
    npairs = 30 if tier == "quick" else 200
    for s, t in pairs[:npairs]:
        out.append({"expr": ["mul", s, t]})
    for s, t in pairs[npairs:npairs + 6]:
        out.append({"expr": ["H", {"expr": ["mul", s, t]}]})
    sums = [(s, t) for (s, a) in info for (t, b) in info if a["shape"] == b["shape"] and merge_ok(a["ff"], b["ff"])
            and a["cplx"] == b["cplx"] and a["clin"] and b["clin"] and json.dumps(s, sort_keys=True) != json.dumps(t, sort_keys=True)]
    r.shuffle(sums)
    # sums with differing dims conventions first (1-d vs N-d): exercises the "replace if shape-like" rule
    sums.sort(key=lambda st: 0 if attrs_of(build(st[0]))["dims"] != attrs_of(build(st[1]))["dims"] else 1)
    nsums = 20 if tier == "quick" else 120
    for j, (s, t) in enumerate(sums[:nsums]):
        out.append({"expr": ["add" if j % 3 else "sub", s, t]})
    out += ff_sum_specs()
    return out


def ff_sum_specs():
    """Sums / differences with forceflat on the LEFT, on the RIGHT, on both
    (equal; conflicting ones raise and are in the 'must raise' attribute cases),
    then .H, scaling and products of the sum."""
    out = []
    fam = [{"extra": "D54"}] + [{"extra": "I54/ff=%s" % ff} for ff in (None, True, False)]
    D = fam[0]
    ffof = {"D54": None, "I54/ff=None": None, "I54/ff=True": True, "I54/ff=False": False}
    for L in fam:
        for Rr in fam:
            if not merge_ok(ffof[L["extra"]], ffof[Rr["extra"]]) or (L is Rr and L is D):
                continue
            S = {"expr": ["add", L, Rr]}
            out += [S, {"expr": ["sub", L, Rr]}]
            if L is not Rr:
                out += [{"expr": ["H", S]}, {"expr": ["scal", S]}, {"expr": ["mul", S, D]},
                        {"expr": ["mul", {"expr": ["add", L, {"expr": ["scal", Rr]}]}, D]}]
    for ff in (None, True, False):
        B = {"extra": "BlockDiagND/ff=%s" % ff}
        out += [{"expr": ["add", B, {"extra": "Diag223"}]}, {"expr": ["add", {"extra": "Diag223"}, B]},
                {"expr": ["H", {"expr": ["sub", {"extra": "Diag223"}, B]}]}]
    return out


_FFCACHE = {}


def model_ff(spec):
    """forceflat of an expression by the MODEL's rule (DotDispatch.merge_ff for
    products and sums, unchanged by adjoint / transpose / scaling / power); leaves: observed.
    Returns "conflict" when the construction must raise."""
    k = json.dumps(spec, sort_keys=True)
    if k in _FFCACHE:
        return _FFCACHE[k]
    if "expr" not in spec:
        ff = build(spec).forceflat
        r = None if ff is None else bool(ff)
    else:
        op, *args = spec["expr"]
        fs = [model_ff(a) for a in args]
        if "conflict" in fs:
            r = "conflict"
        elif op in ("mul", "add", "sub"):
            a, b = fs
            r = "conflict" if not merge_ok(a, b) else (a if a is not None else b)
        else:
            r = fs[0]
    _FFCACHE[k] = r
    return r


def merge_ok(fa, fb):
    return fa is None or fb is None or fa == fb


def layouts(dims, dimsd, tier):
    dims, dimsd = tuple(dims), tuple(dimsd)
    N = prod(dims)
    L = [("flat", (N,)), ("dims", dims), ("dims+k2", dims + (2,)), ("dims+k1", dims + (1,)), ("(N,1)", (N, 1)), ("(N,3)", (N, 3)),
         ("flat+1", (N + 1,)), ("(N+1,2)", (N + 1, 2)), ("dims[-1]+1", dims[:-1] + (dims[-1] + 1,)),
         ("dims[-1]+1,k", dims[:-1] + (dims[-1] + 1, 2)), ("lead1", (1,) + dims), ("lead2", (2,) + dims),
         ("reversed", dims[::-1]), ("dimsd", dimsd), ("(1,N)", (1, N)), ("(2,N)", (2, N))]
    if N > 1:
        L += [("flat-1", (N - 1,)), ("(N-1,2)", (N - 1, 2))]
    if dims[-1] > 1:
        L += [("dims[-1]-1", dims[:-1] + (dims[-1] - 1,))]
    if len(dims) >= 2:
        L += [("swap01", (dims[1], dims[0]) + dims[2:]), ("merged", (dims[0] * dims[1],) + dims[2:]),
              ("merged+k", (dims[0] * dims[1],) + dims[2:] + (2,))]
    if tier == "thorough":
        L += [("dims+k4", dims + (4,)), ("(N,5)", (N, 5)), ("lead3", (3,) + dims), ("dims+k,2", dims + (2, 2)),
              ("flat+2", (N + 2,)), ("(2N,)", (2 * N,)), ("(N,1,1)", (N, 1, 1))]
    seen, out = set(), []
    for name, s in L:
        s = tuple(int(a) for a in s)
        if s in seen or prod(s) == 0 or prod(s) > 5000:
            continue
        seen.add(s)
        out.append((name, s))
    return out


def mkinput(op, shape, tag):
    n = prod(shape)
    cplx = np.iscomplexobj(np.ones(1, dtype=op.dtype))
    x = zoo.cvec(("c04x", tag, shape), n) if cplx else zoo.ivec(("c04x", tag, shape), n)
    return x.reshape(shape)


def dkind(a):
    return {"float32": 0, "float64": 1, "complex64": 2, "complex128": 3}.get(np.asarray(a).dtype.name, 9)


def richer_input(op, shape, tag):
    """Columns of a RICHER dtype than the operator's: float64 (not float32-representable)
    for a float32 operator, complex128 for a float64 operator; None otherwise."""
    dt = np.dtype(getattr(op, "dtype", None) or "float64")
    n = prod(shape)
    if dt == np.float32:
        return (zoo.ivec(("c04rich", tag, shape), n) / 3.0 + 0.1).reshape(shape)
    if dt == np.float64:
        return zoo.cvec(("c04rich", tag, shape), n).reshape(shape)
    return None


def richer_calls(op, X, dims):
    """(label, thunk) of the three ways of applying op to the (N, k) columns X"""
    k = X.shape[1]
    return [("richer:matmat", lambda: op.matmat(X)),
            ("richer:dot", lambda: apply_dot(op, X, True)[3]),
            ("richer:dotnd", lambda: apply_dot(op, X.reshape(tuple(dims) + (k,)), True)[3])]


def richer_cases(op, spec, a, key):
    """matmat / Op @ X / Op @ X[dims+(k,)] on columns of a richer dtype vs column-by-column matvec
    (values and dtype kind) -- only where plain matvec itself accepts such a column."""
    M, N = a["shape"]
    X = richer_input(op, (N, 2), key + "rich")
    if X is None or M * N > 900 or not getattr(op, "clinear", True):
        return []
    try:
        cols = [np.asarray(op.matvec(X[:, j].copy())).ravel() for j in range(2)]
        if any(c.shape != (M,) for c in cols):
            return []
    except Exception:
        return []
    kc = dkind(np.stack(cols))
    out = []
    for label, f in richer_calls(op, X, a["dims"]):
        xs = (N, 2) if label != "richer:dotnd" else tuple(a["dims"]) + (2,)
        if label != "richer:matmat" and not isinstance(expectation(a["dims"], a["dimsd"], a["ff"], True, xs), tuple):
            continue        # this layout is not promised a result (e.g. forceflat=True rejects dims+(k,))
        try:
            y = f()
            y = np.zeros(0) if y is None else np.asarray(y)
        except Exception:
            y = np.zeros(0)
        out.append({"spec": spec, "what": label, "M": M, "got": y.ravel(), "cols": cols, "xs": [N, 2], "flag": True,
                    "kg": dkind(y) if y.size else 9, "kc": kc})
    return out


def classify(e):
    return "ValueError" if isinstance(e, ValueError) else "Other:%s" % type(e).__name__


def apply_dot(op, x, flag):
    """Op @ x under the given flag value; returns (class, route, shape, y)."""
    import pylops
    try:
        pylops.set_ndarray_multiplication(flag)
        try:
            op.reset_count()
        except Exception:
            pass
        try:
            y = op @ x
        except Exception as e:  # classified, compared in Coq
            return classify(e), None, None, None
        route = 1 if getattr(op, "matmat_count", 0) > 0 else 0
        return "ok", route, tuple(int(a) for a in np.shape(y)), np.asarray(y)
    finally:
        pylops.set_ndarray_multiplication(True)


def call(f, x):
    try:
        y = f(x)
        return "ok", tuple(int(a) for a in np.shape(y)), np.asarray(y)
    except Exception as e:
        return classify(e), None, None


def expectation(dims, dimsd, ff, flag, xs):
    """What the PROPERTY STATEMENT (not the model) demands; None = unspecified."""
    dims, dimsd, xs = tuple(dims), tuple(dimsd), tuple(xs)
    N, M = prod(dims), prod(dimsd)
    size = prod(xs)
    if not (size == N or (len(xs) >= 2 and prod(xs[:-1]) == N)):
        return "error"
    if not flag and (len(xs) > 2 or (len(xs) == 2 and xs[0] != N)):
        return "error"
    # an N-d array that is neither dims-shaped, nor dims+(k,), nor an (N, k) matrix must not be silently reshaped
    if len(xs) >= 2 and xs != dims and xs[:-1] != dims and not (len(xs) == 2 and xs[0] == N):
        return "error"
    if flag:
        if xs == dims:
            return ("ok", (M,) if ff is True else dimsd)
        if len(dims) >= 1 and xs[:-1] == dims and len(xs) >= 2 and ff is not True:
            return ("ok", dimsd + (xs[-1],))
        if xs == (N,) and dims != (N,):
            return ("ok", (M,))
        if len(xs) == 2 and xs[0] == N and len(dims) != 1 and xs != dims:
            return ("ok", (M, xs[1]))
        return None
    if xs == (N,):
        return ("ok", (M,))
    if len(xs) == 2 and xs[0] == N and xs != dims:
        return ("ok", (M, xs[1]))
    return None


def contradicts(exp, cls, shape):
    if exp is None:
        return False
    if exp == "error":
        return cls == "ok"
    return cls != "ok" or tuple(shape) != tuple(exp[1])


def oblit(o):
    return "None" if o is None else "(Some %s)" % blit(o)


def nl(v):
    return "[" + "; ".join(str(int(a)) for a in v) + "]"


def obs_lit(cls, route, shape):
    if cls == "ok":
        return "(ObsOk %d %s)" % (route or 0, nl(shape))
    return "ObsValueError" if cls == "ValueError" else "ObsOther"


def attrs_lit(a):
    return "(mkattrs %d %d %s %s %s)" % (a["shape"][0], a["shape"][1], nl(a["dims"]), nl(a["dimsd"]), oblit(a["ff"]))


def glist(v):
    v = np.asarray(v).ravel()
    return "[" + "; ".join(common.glit(t) for t in v) + "]"


def gather_ops(tier):
    """Runs the implementation; returns the case dictionaries per kind."""
    import pylops
    leaves = select_ops(tier)
    comp = compound_specs(leaves, tier)
    dot, mv, attr, val, ops = [], [], [], [], []
    kmax = 2 if tier == "quick" else 3
    for oi, spec in enumerate(leaves + comp):
        key = json.dumps(spec, sort_keys=True)
        try:
            op = build(spec)
            a = attrs_of(op)
        except Exception as e:
            # compound construction raising on compatible operands is judged through the attrs model below
            ops.append({"spec": spec, "error": "%s: %s" % (type(e).__name__, str(e)[:200])})
            continue
        ops.append({"spec": spec, "attrs": a})
        M, N = a["shape"]
        dims, dimsd, ff = a["dims"], a["dimsd"], a["ff"]
        is_leaf = "expr" not in spec
        if not is_leaf:
            ffm = model_ff(spec)
            if ffm != "conflict":
                ff = ffm        # dot_dispatch is evaluated on the MODEL's merged forceflat
        # ---- attributes
        attr.append({"kind": 0, "a": a, "b": a, "res": a, "spec": spec})
        if "expr" in spec:
            e = spec["expr"]
            try:
                oa = attrs_of(build(e[1]))
                ob = attrs_of(build(e[2])) if len(e) > 2 else oa
                k = {"H": 1, "T": 2, "mul": 3, "add": 4, "sub": 4, "scal": 5, "neg": 5, "pow": None, "conj": None}[e[0]]
                if k is not None:
                    attr.append({"kind": k, "a": oa, "b": ob, "res": a, "spec": spec})
            except Exception:
                pass
        # ---- dot on every layout x flag
        lay = layouts(dims, dimsd, tier)
        if not is_leaf and tier == "quick":
            lay = [l for l in lay if l[0] in ("flat", "dims", "dims+k2", "(N,3)", "flat+1", "reversed", "lead1", "dimsd", "dims[-1]+1", "swap01")]
        for lname, xs in lay:
            x = mkinput(op, xs, key)
            for flag in (True, False):
                cls, route, shp, y = apply_dot(op, x, flag)
                c = {"spec": spec, "layout": lname, "xs": list(xs), "flag": flag, "dims": dims, "dimsd": dimsd, "ff": ff,
                     "cls": cls, "route": route, "shape": None if shp is None else list(shp)}
                dot.append(c)
                # values: flattening of the result vs matvec on the flattened columns
                if cls == "ok" and M * N <= 900 and (is_leaf or oi % 3 == 0) and \
                        ((flag and lname in ("dims", "dims+k2", "flat", "(N,1)") + (("dims+k4", "(N,5)") if tier == "thorough" else ()))
                         or (not flag and lname == "(N,3)")):
                    k = prod(xs) // N if N else 1
                    try:
                        X2 = x.reshape(N, k) if (route == 1) else x.reshape(N, 1)
                        cols = [np.asarray(op.matvec(X2[:, j].copy())).ravel() for j in range(X2.shape[1])]
                        val.append({"spec": spec, "what": "Op@x[%s,flag=%s]" % (lname, flag), "M": M, "got": y.ravel(), "cols": cols,
                                    "xs": list(xs), "flag": flag})
                    except Exception as e:
                        val.append({"spec": spec, "what": "matvec of column raised %s" % e, "M": M, "got": y.ravel(), "cols": [], "xs": list(xs),
                                    "flag": flag})
        # ---- direct calls
        for kind, f, n_in in ((0, op.matvec, N), (1, op.rmatvec, M), (2, op.matmat, N), (3, op.rmatmat, M)):
            shapes = [(n_in,), (n_in, 1), (n_in, 2), (n_in + 1,), (n_in + 1, 1), (1, n_in), (n_in, 1, 1)]
            if n_in > 1:
                shapes.append((n_in - 1,))
            if kind in (0, 2) and len(dims) > 1:
                shapes.append(tuple(dims))
            if kind in (1, 3) and len(dimsd) > 1:
                shapes.append(tuple(dimsd))
            if not is_leaf and tier == "quick":
                shapes = [(n_in,), (n_in, 2), (n_in + 1,)]
            for xs in dict.fromkeys(shapes):
                x = mkinput(op, xs, key + "mv")
                cls, shp, y = call(f, x)
                mv.append({"spec": spec, "kind": kind, "M": M, "N": N, "xs": list(xs), "cls": cls, "shape": None if shp is None else list(shp)})
                if cls == "ok" and kind >= 2 and M * N <= 900 and is_leaf and xs == (n_in, 2):
                    g = op.matvec if kind == 2 else op.rmatvec
                    try:
                        cols = [np.asarray(g(x[:, j].copy())).ravel() for j in range(x.shape[1])]
                        val.append({"spec": spec, "what": "%s vs columns" % ("matmat" if kind == 2 else "rmatmat"), "M": M if kind == 2 else N,
                                    "got": y.ravel(), "cols": cols, "xs": list(xs), "flag": True})
                    except Exception:
                        pass
        # ---- columns of a richer dtype than the operator's (values and dtype kind)
        if is_leaf or oi % 4 == 0:
            val.extend(richer_cases(op, spec, a, key))
        # ---- Op.H @ (dimsd-shaped) = dims-shaped, values vs rmatvec
        if is_leaf and M * N <= 900:
            try:
                yv = mkinput(op, tuple(dimsd), key + "H")
                cls, route, shp, z = apply_dot(op.H, yv, True)
                if cls == "ok":
                    val.append({"spec": spec, "what": "Op.H@y[dimsd]", "M": N, "got": z.ravel(), "cols": [np.asarray(op.rmatvec(yv.ravel())).ravel()],
                                "xs": list(dimsd), "flag": True})
            except Exception:
                pass
    # ---- incompatible constructions must raise (None in the model)
    good = [o for o in ops if "attrs" in o and "expr" not in o["spec"]]
    r = common.rng(PID, "badpairs")
    bad = []
    for _ in range(400):
        s, t = r.choice(good), r.choice(good)
        a, b = s["attrs"], t["attrs"]
        if a["shape"][1] != b["shape"][0] or not merge_ok(a["ff"], b["ff"]):
            bad.append((3, s, t))
        if a["shape"] != b["shape"] or not merge_ok(a["ff"], b["ff"]):
            bad.append((4, s, t))
    # all forceflat conflicts among the extras
    fl = [o for o in good if o["attrs"]["ff"] is not None]
    for s in fl:
        for t in fl:
            if s["attrs"]["ff"] != t["attrs"]["ff"]:
                if s["attrs"]["shape"][1] == t["attrs"]["shape"][0]:
                    bad.append((3, s, t))
                if s["attrs"]["shape"] == t["attrs"]["shape"]:
                    bad.append((4, s, t))
    seen = set()
    for k, s, t in bad:
        kk = (k, json.dumps(s["spec"], sort_keys=True), json.dumps(t["spec"], sort_keys=True))
        if kk in seen or len(seen) >= (60 if tier == "quick" else 300):
            continue
        seen.add(kk)
        A, B = build(s["spec"]), build(t["spec"])
        try:
            C = (A @ B) if k == 3 else (A + B)
            res = attrs_of(C)
        except ValueError:
            res = None
        except Exception as e:
            res = {"shape": [0, 0], "dims": [], "dimsd": [], "ff": None, "other": type(e).__name__}
        attr.append({"kind": k, "a": s["attrs"], "b": t["attrs"], "res": res, "spec": {"expr": ["mul" if k == 3 else "add", s["spec"], t["spec"]]}})
    return {"ops": ops, "dot": dot, "mv": mv, "attr": attr, "val": val}


# ---- setter sequences on a bare LinearOperator
def setter_cases():
    from pylops import LinearOperator
    shapes = [(3, 4), (6, 4), (3, 6)]
    dimss = [[4], [2, 2], [5], [2, 3]]
    dimsds = [[3], [6], [2, 3], [3, 1]]
    seqs = []
    for s in shapes:
        for d in dimss:
            for dd in dimsds:
                items = [("shape", list(s)), ("dims", d), ("dimsd", dd)]
                for perm in itertools.permutations(items):
                    seqs.append(list(perm))
                    seqs.append(list(perm[:2]))
                    seqs.append(list(perm[:1]))
    out, seen = [], set()
    for sq in seqs:
        k = json.dumps(sq)
        if k in seen:
            continue
        seen.add(k)
        out.append({"ops": sq, "res": run_setters(sq)})
    return out


def run_setters(sq):
    from pylops import LinearOperator
    op = LinearOperator()
    try:
        for name, v in sq:
            setattr(op, name, tuple(v))
    except ValueError:
        return "ValueError"
    try:
        return attrs_of(op)
    except AttributeError:
        return "AttributeError"


def set_lit(i, c):
    ops = "; ".join("(SShape %d %d)" % tuple(v) if n == "shape" else "(%s %s)" % ("SDims" if n == "dims" else "SDimsd", nl(v)) for n, v in c["ops"])
    r = c["res"]
    res = "None" if r == "ValueError" else ("(Some None)" if r == "AttributeError" else "(Some (Some %s))" % attrs_lit(r))
    return "{| s_id := @ID@; s_ops := [%s]; s_res := %s |}" % (ops, res)


def known_setter_trigger(ops):
    """shape assigned while exactly one of dims / dimsd is already set"""
    have = set()
    for n, _ in ops:
        if n == "shape" and len(have & {"dims", "dimsd"}) == 1:
            return True
        have.add(n)
    return False


# ---- solver wrapper
def solver_cases(specs):
    import pylops
    from pylops.utils.decorators import add_ndarray_support_to_solver
    out = []
    for spec in specs:
        op = build(spec)
        a = attrs_of(op)
        N = a["shape"][1]
        for x0kind in ("none", "flat", "nd"):
            for before in (True, False):
                for boom in (False, True):
                    seen = {}

                    def fake(A, b, x0=None, seen=seen, boom=boom):
                        seen["inside"] = bool(pylops.get_ndarray_multiplication())
                        seen["bshape"] = b.shape
                        seen["x0shape"] = None if x0 is None else x0.shape
                        if boom:
                            raise Injected()
                        return (np.arange(A.shape[1], dtype=float), 0)
                    wrapped = add_ndarray_support_to_solver(fake)
                    b = np.zeros(tuple(a["dimsd"]))
                    x0 = None if x0kind == "none" else (np.zeros(N) if x0kind == "flat" else np.zeros(tuple(a["dims"])))
                    shape = None
                    try:
                        pylops.set_ndarray_multiplication(before)
                        try:
                            res = wrapped(op, b, x0=x0) if x0 is not None else wrapped(op, b)
                            shape = list(res[0].shape)
                        except Injected:
                            pass
                        after = bool(pylops.get_ndarray_multiplication())
                    finally:
                        pylops.set_ndarray_multiplication(True)
                    flat_in = seen.get("bshape") == (a["shape"][0],) and seen.get("x0shape") in (None, (N,))
                    out.append({"spec": spec, "dims": a["dims"], "ff": a["ff"], "x0": None if x0 is None else list(x0.shape),
                                "shape": shape, "inside": seen.get("inside", True) or not flat_in, "before": before, "after": after, "boom": boom})
    return out


def sol_lit(i, c):
    from_model = c["shape"] is None   # solver raised: no shape to compare; the model's own shape is echoed
    x0 = "None" if c["x0"] is None else "(Some %s)" % nl(c["x0"])
    shape = ("(solver_wrap_shape %s %s %s)" % (nl(c["dims"]), oblit(c["ff"]), x0)) if from_model else nl(c["shape"])
    return "{| w_id := @ID@; w_dims := %s; w_ff := %s; w_x0 := %s; w_shape := %s; w_inside := %s; w_before := %s; w_after := %s |}" % (
        nl(c["dims"]), oblit(c["ff"]), x0, shape, blit(c["inside"]), blit(c["before"]), blit(c["after"]))


# ---- memory layouts: element-wise equal arrays must give the same result
LAYOUTS = ("C", "F", "T", "neg0", "neg1")


def relayout(a, how):
    """An array element-wise equal to `a` (same shape, same values) with another memory layout."""
    a = np.ascontiguousarray(a)
    if how == "C" or a.ndim < 2:
        return a
    if how == "F":
        b = np.asfortranarray(a)
    elif how == "T":                                   # transposed view of a C-ordered transposed copy
        b = np.ascontiguousarray(a.T).T
    elif how == "neg0":                                # negative stride along the first axis
        b = np.ascontiguousarray(a[::-1])[::-1]
    else:                                              # negative stride along the last axis
        b = np.ascontiguousarray(a[..., ::-1])[..., ::-1]
    assert b.shape == a.shape and np.array_equal(a, b)
    return b


def _fake_solver(A, b, x0=None):
    x = np.asarray(A.rmatvec(b)) + (0 if x0 is None else 3 * x0)
    return (x, 0)


def solver_setups():
    """name -> (operator builder, solver builder(kwargs) ) for the decorated entry points"""
    import pylops
    from pylops.optimization.basic import cg, cgls, lsqr
    from pylops.utils.decorators import add_ndarray_support_to_solver
    fake = add_ndarray_support_to_solver(_fake_solver)
    spd = lambda: pylops.Diagonal((2.0 + np.abs(zoo.ivec("c04spd", 12))).reshape(3, 4))
    wide = lambda: pylops.Restriction((4, 5), [0, 2, 3], axis=1)
    tall = lambda: pylops.VStack([pylops.FirstDerivative((4, 3), axis=0, kind="forward"), pylops.Diagonal(1.0 + np.abs(zoo.ivec("c04tall", 12)).reshape(4, 3))])
    sm = lambda: pylops.Sum((3, 4, 2), axis=1)
    tr = lambda: pylops.Transpose((2, 3, 4), (2, 0, 1))
    S = {
        "cg/spd": (spd, lambda A, y, x0: cg(A, y, x0=x0, niter=2)),
        "cgls/wide": (wide, lambda A, y, x0: cgls(A, y, x0=x0, niter=2, damp=0.5)),
        "cgls/tall": (tall, lambda A, y, x0: cgls(A, y, x0=x0, niter=3, damp=0.0)),
        "lsqr/wide-damp": (wide, lambda A, y, x0: lsqr(A, y, x0=x0, niter=3, damp=0.7)),
        "lsqr/sum3d-damp": (sm, lambda A, y, x0: lsqr(A, y, x0=x0, niter=3, damp=0.3)),
        "lsqr/transpose3d": (tr, lambda A, y, x0: lsqr(A, y, x0=x0, niter=2, damp=0.5)),
        "fake/wide": (wide, lambda A, y, x0: fake(A, y, x0=x0)),
        "fake/sum3d": (sm, lambda A, y, x0: fake(A, y, x0=x0)),
        "fake/transpose3d": (tr, lambda A, y, x0: fake(A, y, x0=x0)),
    }
    try:
        from pylops.optimization.sparsity import spgl1
        import spgl1 as _sp  # noqa: F401
        S["spgl1/wide"] = (wide, lambda A, y, x0: spgl1(A, y, x0=x0, iter_lim=3))
    except Exception:
        pass
    return S


def run_solver_layout(name, ylay, x0lay):
    """(result of the N-d call with the given layouts).ravel(), result of the flat call"""
    import pylops
    mkop, solve = solver_setups()[name]
    A = mkop()
    y = zoo.ivec(("c04sy", name), A.shape[0]).reshape(A.dimsd)
    x0 = zoo.ivec(("c04sx0", name), A.shape[1]).reshape(A.dims)
    try:
        ref = np.asarray(solve(A, y.ravel().copy(), x0.ravel().copy())[0]).ravel()
        got = np.asarray(solve(A, relayout(y, ylay), relayout(x0, x0lay))[0])
        assert pylops.get_ndarray_multiplication() is True
    finally:
        pylops.set_ndarray_multiplication(True)
    return got, ref, tuple(A.dims)


def layout_cases(opspecs, tier):
    out = []
    combos = [("C", "C"), ("F", "C"), ("T", "C"), ("C", "F"), ("C", "T"), ("F", "F"), ("T", "T"), ("neg0", "C"), ("neg1", "C"), ("C", "neg0"), ("C", "neg1")]
    for name in solver_setups():
        for ylay, x0lay in combos:
            got, ref, dims = run_solver_layout(name, ylay, x0lay)
            ok_shape = tuple(got.shape) == dims
            out.append({"what": "solver", "name": name, "ylay": ylay, "x0lay": x0lay, "M": len(ref),
                        "got": got.ravel() if ok_shape else np.zeros(0), "cols": [ref]})
    # operators: Op @ X with X (dims / dims+(k,)) in another memory layout = C-ordered result
    n = 0
    for spec in opspecs:
        op = build(spec)
        a = attrs_of(op)
        if len(a["dims"]) < 2 or a["ff"] is True or a["shape"][0] > 200 or a["shape"][1] > 200:
            continue
        n += 1
        if tier == "quick" and n % 2:
            continue
        key = json.dumps(spec, sort_keys=True)
        for shp in (tuple(a["dims"]), tuple(a["dims"]) + (2,)):
            X = mkinput(op, shp, key + "lay")
            cls, _, _, ref = apply_dot(op, X, True)
            if cls != "ok":
                continue
            for lay in ("F", "T", "neg1") if len(shp) == len(a["dims"]) else ("F", "T"):
                cls2, _, shp2, y2 = apply_dot(op, relayout(X, lay), True)
                good = cls2 == "ok" and tuple(shp2) == tuple(ref.shape)
                out.append({"what": "op", "spec": spec, "xs": list(shp), "lay": lay, "M": ref.size,
                            "got": y2.ravel() if good else np.zeros(0), "cols": [ref.ravel()]})
    return out


def replay_layout(rp):
    if rp["what_case"] == "solver":
        got, ref, dims = run_solver_layout(rp["name"], rp["ylay"], rp["x0lay"])
        print("solver", rp["name"], "y layout", rp["ylay"], "x0 layout", rp["x0lay"], "-> result shape", got.shape, "expected", dims)
        d = 1.0 if got.size != ref.size else float(np.abs(got.ravel() - ref).max(initial=0) / (1 + np.abs(ref).max(initial=0)))
    else:
        op = build(rp["spec"])
        X = mkinput(op, tuple(rp["xs"]), json.dumps(rp["spec"], sort_keys=True) + "lay")
        ref = apply_dot(op, X, True)[3]
        cls, _, _, y = apply_dot(op, relayout(X, rp["lay"]), True)
        d = 1.0 if (cls != "ok" or y.shape != ref.shape) else float(np.abs(y - ref).max(initial=0) / (1 + np.abs(ref).max(initial=0)))
    print("max relative difference between the call on the re-laid-out (element-wise equal) array and the reference call:", d)
    return d > 1e-12


# ------------------------------------------------------------------ coq evaluation
HEADER = ("From Coq Require Import QArith Qcanon List.\nFrom PV Require Import Check GaussQc ConfigFlag DotDispatch CheckC04.\n"
          "Import ListNotations.\nLocal Open Scope nat_scope.\nDefinition tol12 : Qc := (q 1 1000000000000).\n")


def coq_eval(groups, tol):
    """groups: {kind: [(id, literal)]}; returns {id: codes}."""
    d = common.workdir(PID)
    TY = {"flag": ("flagcase", "f_id", "check_flag"), "dot": ("dotcase", "d_id", "check_dot"), "mv": ("mvcase", "m_id", "check_mv"),
          "attr": ("attrcase", "t_id", "check_attr"), "set": ("setcase", "s_id", "check_set"), "sol": ("solcase", "w_id", "check_sol"),
          "val": ("valcase", "v_id", "(check_val tol)"), "lay": ("valcase", "v_id", "(check_val tol12)")}
    per = {"flag": 1200, "dot": 900, "mv": 1500, "attr": 600, "set": 800, "sol": 800, "val": 60, "lay": 80}
    names = []
    back = {}
    for kind, items in groups.items():
        ty, idf, chk = TY[kind]
        for k, sh in enumerate(common.shard(items, per[kind])):
            name = "%s_%d" % (kind, k)
            names.append(name)
            # ids are local to the file (small nat literals); `back` maps them to the global case index
            back[name] = [i for i, _ in sh]
            with open(os.path.join(d, name + ".v"), "w") as f:
                f.write(HEADER)
                f.write("Definition tol : Qc := %s.\n" % tol)
                f.write("Definition cases : list %s := [\n%s].\n" % (ty, ";\n".join(l.replace("@ID@", str(j)) for j, (_, l) in enumerate(sh))))
                f.write("Eval vm_compute in (failing %s %s cases).\n" % (idf, chk))
    outs = common.run_coq_files(d, names)
    res = {}
    for n in names:
        rc, txt = outs[n]
        # Coq breaks long lists between "(" and the number: normalise white space before parsing
        for j, cd in common.parse_failing((rc, " ".join(txt.split()).replace("( ", "("))).items():
            res[back[n][j]] = cd
    return res, len(names)


# ------------------------------------------------------------------ replay
def replay(rp):
    import pylops
    k = rp.get("kind")
    if k == "flag":
        def tt(p):
            return tuple(tt(q) if isinstance(q, list) else q for q in p)
        p = tt(rp["program"])
        got = run_impl(p, rp["init"], rp.get("decorator", False))
        exp = (rp["expected"]["final"], rp["expected"]["raised"], rp["expected"]["trace"])
        print("program:", prog_str(p), "| initial flag:", rp["init"])
        print("observed (final, raised, trace):", got, " expected:", exp)
        bad = (got[0], got[1], list(got[2])) != (exp[0], exp[1], list(exp[2]))
    elif k == "dot":
        op = build(rp["spec"])
        a = attrs_of(op)
        x = mkinput(op, tuple(rp["xs"]), "replay")
        cls, route, shp, y = apply_dot(op, x, rp["flag"])
        ffm = rp.get("attrs", {}).get("forceflat", a["ff"])
        exp = expectation(a["dims"], a["dimsd"], ffm, rp["flag"], rp["xs"])
        print("operator attrs:", a, "| forceflat by the merge rule:", ffm, "| input shape:", rp["xs"], "flag:", rp["flag"])
        print("observed:", cls, shp, " property demands:", exp)
        bad = contradicts(exp, cls, shp) if exp is not None else (cls, list(shp or [])) == (rp["observed"]["cls"], rp["observed"]["shape"] or [])
    elif k == "mv":
        op = build(rp["spec"])
        f = [op.matvec, op.rmatvec, op.matmat, op.rmatmat][rp["mkind"]]
        cls, shp, y = call(f, mkinput(op, tuple(rp["xs"]), "replay"))
        print("observed:", cls, shp, " expected:", rp["expected"])
        bad = (cls == "ok") != (rp["expected"] != "error") or (cls == "ok" and list(shp) != rp["expected"])
    elif k == "attr":
        try:
            a = attrs_of(build(rp["spec"]))
        except ValueError:
            a = None
        print("observed attrs:", a, " demanded:", rp["demanded"])
        bad = not attr_ok(a, rp["demanded"])
    elif k == "val":
        op = build(rp["spec"])
        x = rp["tag"] if rp.get("call", "").startswith("richer:") else mkinput(op, tuple(rp["xs"]), rp["tag"])
        bad = value_defect(op, x, rp["flag"], rp.get("call", "dot")) > 1e-9
    elif k == "lay":
        bad = replay_layout(rp)
    elif k == "set":
        res = run_setters(rp["ops"])
        print("setter sequence", rp["ops"], "->", res)
        bad = isinstance(res, dict) and (prod(res["dims"]) != res["shape"][1] or prod(res["dimsd"]) != res["shape"][0])
    elif k == "sol":
        c = solver_cases([rp["spec"]])
        badc = [x for x in c if sol_bad(x)]
        print(badc[:2])
        bad = bool(badc)
    else:
        print("nothing to replay:", rp.get("what"))
        return 1
    print("reproduced" if bad else "not reproduced")
    return 1 if bad else 0


def attr_ok(a, dem):
    if dem == "ValueError":
        return a is None
    if a is None:
        return False
    return all(a[k] == dem[k] for k in dem)


def sol_bad(c):
    ffT = c["ff"] is True
    x0flat = c["x0"] is not None and len(c["x0"]) == 1
    want = c["dims"] if (not x0flat and not ffT) else [prod(c["dims"])]
    return c["inside"] or c["before"] != c["after"] or (c["shape"] is not None and c["shape"] != want)


def value_defect(op, x, flag, how):
    a = attrs_of(op)
    M, N = a["shape"]
    if how.startswith("richer:"):
        X = richer_input(op, (N, 2), x)
        ref = np.stack([np.asarray(op.matvec(X[:, j].copy())).ravel() for j in range(2)], axis=1)
        try:
            y = np.asarray(dict(richer_calls(op, X, a["dims"]))[how]())
        except Exception as e:
            print("raised", type(e).__name__, e)
            return 1.0
        print("dtype of result:", y.dtype, " dtype of column-by-column matvec:", ref.dtype)
        if y.size != ref.size or dkind(y) != dkind(ref):
            return 1.0
    elif how == "dot":
        cls, route, shp, y = apply_dot(op, x, flag)
        X2 = x.reshape(N, -1)
        ref = np.stack([np.asarray(op.matvec(X2[:, j].copy())).ravel() for j in range(X2.shape[1])], axis=1)
    elif how == "matmat":
        y = op.matmat(x)
        ref = np.stack([np.asarray(op.matvec(x[:, j].copy())).ravel() for j in range(x.shape[1])], axis=1)
    elif how == "rmatmat":
        y = op.rmatmat(x)
        ref = np.stack([np.asarray(op.rmatvec(x[:, j].copy())).ravel() for j in range(x.shape[1])], axis=1)
    else:
        cls, route, shp, y = apply_dot(op.H, x, True)
        ref = np.asarray(op.rmatvec(x.ravel()))
    d = np.abs(np.asarray(y).ravel() - ref.ravel()).max(initial=0) / (1 + np.abs(ref).max(initial=0))
    print("max relative defect between the N-d application and the flat column-wise matvec:", d)
    return d


# ------------------------------------------------------------------ property-level demands for attributes
def attr_demand(c):
    """What the property statement demands of a construction (None = nothing)."""
    k, a, b = c["kind"], c["a"], c["b"]
    if k in (1, 2):
        return {"dims": a["dimsd"], "dimsd": a["dims"], "shape": [a["shape"][1], a["shape"][0]]}
    if k == 3:
        if a["shape"][1] != b["shape"][0]:
            return "ValueError"
        if not merge_ok(a["ff"], b["ff"]):
            return None
        return {"dims": b["dims"], "dimsd": a["dimsd"], "shape": [a["shape"][0], b["shape"][1]]}
    if k == 4:
        if a["shape"] != b["shape"]:
            return "ValueError"
        if not merge_ok(a["ff"], b["ff"]):
            return "ValueError"
        return {"shape": a["shape"], "ff": a["ff"] if a["ff"] is not None else b["ff"]}
    if k == 5:
        return {"dims": a["dims"], "dimsd": a["dimsd"], "shape": a["shape"]}
    return None


# ------------------------------------------------------------------ main
def main(tier):
    import pylops
    R = common.Report(PID, tier)
    common.coq_build()
    build_own()
    thms, axioms = common.props_assumptions(PID)
    if axioms and not set(axioms) <= common.ALLOWED_AXIOMS:
        R.violation("Props/C04.v depends on unexpected axioms %s" % axioms, {"axioms": axioms}, no_input=True)
    known = [k for k in common.load_known() if k.get("property") == PID] + PROPOSED_KNOWN

    t0 = time.time()
    fc = flag_cases(tier)
    G = gather_ops(tier)
    sc = setter_cases()
    leaves_for_solver = [o["spec"] for o in G["ops"] if "attrs" in o and "expr" not in o["spec"]]
    solc = solver_cases(leaves_for_solver[::3] + [o["spec"] for o in G["ops"] if "extra" in o["spec"]])
    layc = layout_cases(leaves_for_solver, tier)
    assert pylops.get_ndarray_multiplication() is True
    t_py = time.time() - t0

    # ---- ids and literals
    allc = []          # id -> (kind, case)
    groups = {k: [] for k in ("flag", "dot", "mv", "attr", "set", "sol", "val", "lay")}

    def add(kind, c, lit_fn):
        i = len(allc)
        allc.append((kind, c))
        groups[kind].append((i, lit_fn(i, c)))
        return i
    for c in fc:
        add("flag", c, flag_lit)
    for c in G["dot"]:
        add("dot", c, lambda i, c: "{| d_id := @ID@; d_dims := %s; d_dimsd := %s; d_ff := %s; d_flag := %s; d_xs := %s; d_obs := %s |}" % (
            nl(c["dims"]), nl(c["dimsd"]), oblit(c["ff"]), blit(c["flag"]), nl(c["xs"]), obs_lit(c["cls"], c["route"], c["shape"])))
    for c in G["mv"]:
        add("mv", c, lambda i, c: "{| m_id := @ID@; m_kind := %d; m_M := %d; m_N := %d; m_xs := %s; m_obs := %s |}" % (
            c["kind"], c["M"], c["N"], nl(c["xs"]), obs_lit(c["cls"], 0 if c["kind"] < 2 else 1, c["shape"])))
    for c in G["attr"]:
        def al(i, c):
            r = c["res"]
            res = "None" if r is None else "(Some %s)" % attrs_lit(r)
            return "{| t_id := @ID@; t_kind := %d; t_a := %s; t_b := %s; t_res := %s |}" % (c["kind"], attrs_lit(c["a"]), attrs_lit(c["b"]), res)
        add("attr", c, al)
    for c in sc:
        add("set", c, set_lit)
    for c in solc:
        add("sol", c, sol_lit)
    for c in G["val"]:
        add("val", c, lambda i, c: "{| v_id := @ID@; v_M := %d; v_got := %s; v_cols := [%s]; v_kg := %d; v_kc := %d |}" % (
            c["M"], glist(c["got"]), ";\n  ".join(glist(col) for col in c["cols"]), c.get("kg", 0), c.get("kc", 0)))
    vlit = lambda i, c: "{| v_id := @ID@; v_M := %d; v_got := %s; v_cols := [%s]; v_kg := %d; v_kc := %d |}" % (
        c["M"], glist(c["got"]), ";\n  ".join(glist(col) for col in c["cols"]), c.get("kg", 0), c.get("kc", 0))
    for c in layc:
        add("lay", c, vlit)
    # ---- canaries: one deliberately wrong case per main kind; all must come back
    can = {}
    p = ("wd", ("seq", ("obs",), ("raise",)))
    can["flag"] = add("flag", {"p": p, "f0": True, "deco": False, "obs": (False, True, [False])}, flag_lit)       # wrong final flag
    can["dot"] = add("dot", {}, lambda i, c: "{| d_id := @ID@; d_dims := [2; 3]; d_dimsd := [2; 3]; d_ff := None; d_flag := true; d_xs := [2; 3]; d_obs := (ObsOk 0 [6]) |}")
    can["dot2"] = add("dot", {}, lambda i, c: "{| d_id := @ID@; d_dims := [2; 3]; d_dimsd := [2; 3]; d_ff := None; d_flag := true; d_xs := [3; 2]; d_obs := (ObsOk 0 [2; 3]) |}")
    can["attr"] = add("attr", {}, lambda i, c: "{| t_id := @ID@; t_kind := 1; t_a := (mkattrs 4 6 [2; 3] [4] None); t_b := (mkattrs 4 6 [2; 3] [4] None); t_res := (Some (mkattrs 6 4 [2; 3] [4] None)) |}")
    can["val"] = add("val", {}, lambda i, c: "{| v_id := @ID@; v_M := 2; v_got := [((qz 1), z0); ((qz 2), z0); ((qz 3), z0); ((qz 5), z0)]; v_cols := [[((qz 1), z0); ((qz 3), z0)]; [((qz 2), z0); ((qz 4), z0)]]; v_kg := 0; v_kc := 0 |}")
    can["val2"] = add("val", {}, lambda i, c: "{| v_id := @ID@; v_M := 1; v_got := [((qz 1), z0)]; v_cols := [[((qz 1), z0)]]; v_kg := 1; v_kc := 3 |}")
    can["lay"] = add("lay", {}, lambda i, c: "{| v_id := @ID@; v_M := 2; v_got := [((qz 2), z0); ((qz 1), z0)]; v_cols := [[((qz 1), z0); ((qz 2), z0)]]; v_kg := 0; v_kc := 0 |}")
    can["set"] = add("set", {}, lambda i, c: "{| s_id := @ID@; s_ops := [(SShape 3 4); (SDims [5])]; s_res := (Some (Some (mkattrs 3 4 [5] [3] None))) |}")
    can["sol"] = add("sol", {}, lambda i, c: "{| w_id := @ID@; w_dims := [2; 3]; w_ff := None; w_x0 := None; w_shape := [6]; w_inside := false; w_before := true; w_after := true |}")

    t1 = time.time()
    codes, nfiles = coq_eval(groups, common.qlit(__import__("fractions").Fraction(1, 10 ** 9)))
    t_coq = time.time() - t1
    for k, i in can.items():
        if i not in codes:
            raise RuntimeError("canary case %s was not reported by the Coq evaluation: pipeline broken" % k)
        codes.pop(i)

    # ---- judge disagreements
    nviol = 0
    known_hits = 0
    perkind = {}
    seen_flag = set()
    CAP = 6          # replay files per kind of disagreement (the total number of disagreements is reported in the notes)
    for i, cd in sorted(codes.items()):
        kind, c = allc[i]
        is_known_candidate = kind == "set" and cd == [2] and known_setter_trigger(c["ops"]) and \
            any(k["id"] == "C04-setter-order" for k in known)
        if not is_known_candidate:
            perkind[kind] = perkind.get(kind, 0) + 1
            if perkind[kind] > CAP:
                continue
        if kind == "flag":
            rp = shrink_flag(c["p"], c["deco"])
            if rp is not None:
                fk = (rp["program_str"], rp["init"], rp["decorator"])
                if fk in seen_flag:
                    perkind[kind] -= 1
                    continue
                seen_flag.add(fk)
            if rp is None:
                exp = pyrun(c["p"], c["f0"])
                rp = {"kind": "flag", "program": c["p"], "program_str": prog_str(c["p"]), "init": c["f0"], "decorator": c["deco"],
                      "observed": {"final": c["obs"][0], "raised": c["obs"][1], "trace": c["obs"][2]},
                      "expected": {"final": exp[0], "raised": exp[1], "trace": exp[2]}, "what": "differs from ConfigFlag.run3"}
            R.violation("global N-d flag: %s on program `%s` (initial flag %s%s): observed final=%s raised=%s trace=%s, expected final=%s raised=%s trace=%s"
                        % (rp["what"], rp["program_str"], rp["init"], ", via decorator" if rp["decorator"] else "",
                           rp["observed"]["final"], rp["observed"]["raised"], rp["observed"]["trace"],
                           rp["expected"]["final"], rp["expected"]["raised"], rp["expected"]["trace"]), rp)
        elif kind == "dot":
            exp = expectation(c["dims"], c["dimsd"], c["ff"], c["flag"], c["xs"])
            rp = {"kind": "dot", "spec": c["spec"], "xs": c["xs"], "flag": c["flag"], "layout": c["layout"],
                  "attrs": {"dims": c["dims"], "dimsd": c["dimsd"], "forceflat": c["ff"]},
                  "observed": {"cls": c["cls"], "shape": c["shape"], "route": c["route"]}, "property_demands": exp, "coq_codes": cd}
            if contradicts(exp, c["cls"], c["shape"]):
                what = ("wrong-size / N-d-with-flag-off input accepted" if exp == "error" else
                        ("valid layout rejected" if c["cls"] != "ok" else "wrong output shape"))
                R.violation("dot contract: %s: %s input %s (layout %s) flag=%s -> %s %s, property demands %s"
                            % (what, json.dumps(c["spec"])[:160], c["xs"], c["layout"], c["flag"], c["cls"], c["shape"], exp), rp)
            else:
                R.violation("correspondence dot_dispatch vs LinearOperator.dot no longer checks (codes %s): %s input %s flag=%s -> %s %s route %s"
                            % (cd, json.dumps(c["spec"])[:160], c["xs"], c["flag"], c["cls"], c["shape"], c["route"]), rp, no_input=True)
        elif kind == "mv":
            n_in = c["N"] if c["kind"] in (0, 2) else c["M"]
            n_out = c["M"] if c["kind"] in (0, 2) else c["N"]
            xs = c["xs"]
            if c["kind"] < 2:
                exp = [n_out] if xs == [n_in] else ([n_out, 1] if xs == [n_in, 1] else "error")
            else:
                exp = [n_out, xs[1]] if (len(xs) == 2 and xs[0] == n_in) else "error"
            rp = {"kind": "mv", "spec": c["spec"], "mkind": c["kind"], "xs": xs, "expected": exp, "observed": {"cls": c["cls"], "shape": c["shape"]}}
            name = ["matvec", "rmatvec", "matmat", "rmatmat"][c["kind"]]
            R.violation("%s size check: %s input %s -> %s %s, expected %s" % (name, json.dumps(c["spec"])[:160], xs, c["cls"], c["shape"], exp), rp)
        elif kind == "attr":
            dem = attr_demand(c)
            res = c["res"]
            rp = {"kind": "attr", "spec": c["spec"], "a": c["a"], "b": c["b"], "observed": res, "demanded": dem, "coq_codes": cd}
            if 2 in cd and res is not None:
                rp["demanded"] = {"shape": [prod(res["dimsd"]), prod(res["dims"])]}
                R.violation("shape != (prod(dimsd), prod(dims)): %s has shape=%s dims=%s dimsd=%s" % (json.dumps(c["spec"])[:200], res["shape"], res["dims"], res["dimsd"]), rp)
            elif dem is not None and not attr_ok(res, dem):
                R.violation("attributes of %s: observed %s, property demands %s" % (json.dumps(c["spec"])[:200], res, dem), rp)
            else:
                R.violation("correspondence attrs model vs implementation no longer checks (codes %s): %s -> %s" % (cd, json.dumps(c["spec"])[:200], res), rp, no_input=True)
        elif kind == "set":
            rp = {"kind": "set", "ops": c["ops"], "observed": c["res"], "coq_codes": cd}
            if cd == [2] and known_setter_trigger(c["ops"]):
                kf = [k for k in known if k["id"] == "C04-setter-order"]
                if kf:
                    known_hits += 1
                    R.known_finding(kf[0]["id"], kf[0]["what"])
                    continue
            if 2 in cd:
                R.violation("setters accepted inconsistent attributes: %s -> %s" % (c["ops"], c["res"]), rp)
            else:
                R.violation("correspondence setter model vs implementation no longer checks: %s -> %s" % (c["ops"], c["res"]), rp, no_input=True)
        elif kind == "sol":
            rp = {"kind": "sol", "spec": c["spec"], "case": c, "coq_codes": cd}
            R.violation("solver N-d wrapper: %s x0=%s -> result shape %s, flag inside=%s (or non-flat b/x0 passed), before=%s after=%s (solver raised: %s)"
                        % (json.dumps(c["spec"])[:160], c["x0"], c["shape"], c["inside"], c["before"], c["after"], c["boom"]), rp)
        elif kind == "lay":
            if c["what"] == "solver":
                rp = {"kind": "lay", "what_case": "solver", "name": c["name"], "ylay": c["ylay"], "x0lay": c["x0lay"]}
                R.violation("solver N-d wrapper is memory-layout dependent: %s with y in layout %s and x0 in layout %s (element-wise equal to the C-ordered arrays) "
                            "differs from the flat call" % (c["name"], c["ylay"], c["x0lay"]), rp)
            else:
                rp = {"kind": "lay", "what_case": "op", "spec": c["spec"], "xs": c["xs"], "lay": c["lay"]}
                R.violation("Op @ X is memory-layout dependent: %s on X of shape %s in layout %s differs from the C-ordered call"
                            % (json.dumps(c["spec"])[:160], c["xs"], c["lay"]), rp)
        elif kind == "val":
            how = c["what"] if c["what"].startswith("richer:") else "H" if c["what"].startswith("Op.H") else (c["what"].split()[0] if c["what"].split()[0] in ("matmat", "rmatmat") else "dot")
            key = json.dumps(c["spec"], sort_keys=True) + {"dot": "", "H": "H", "matmat": "mv", "rmatmat": "mv"}.get(how, "rich")
            rp = {"kind": "val", "spec": c["spec"], "xs": c["xs"], "flag": c["flag"], "call": how, "tag": key, "what_case": c["what"]}
            R.violation("values: %s of %s on input shape %s differs from column-wise flat matvec%s" % (
                c["what"], json.dumps(c["spec"])[:160], c["xs"],
                " (columns of a richer dtype than the operator's; result dtype kind %s vs %s)" % (c.get("kg"), c.get("kc")) if how.startswith("richer:") else ""), rp)
        nviol += 1

    if codes:
        R.notes.append("disagreeing cases per kind (replays written for the first %d of each): %s" % (
            CAP, {k: sum(1 for i in codes if allc[i][0] == k) for k in groups}))
    # operators that could not even be built / have inconsistent construction are covered by attr cases; report build errors of leaves
    for o in G["ops"]:
        if "error" in o and "expr" not in o["spec"]:
            R.violation("operator raised on a valid configuration: %s: %s" % (o["spec"], o["error"]), {"kind": "build", "spec": o["spec"], "error": o["error"]}, no_input=True)

    # ---- coverage
    ncases = len(allc) - len(can)
    nontriv = set()
    for i, (kind, c) in enumerate(allc):
        if i in can.values():
            continue
        if kind == "flag" and c.get("p") and any(q[0] in ("we", "wd") for q in subprogs(c["p"])):
            nontriv.add(("flag", c["p"], c["f0"], c["deco"]))
        elif kind == "dot" and (len(c["xs"]) > 1 or c["cls"] != "ok"):
            nontriv.add(("dot", json.dumps(c["spec"], sort_keys=True), tuple(c["xs"]), c["flag"]))
        elif kind == "val" and c and np.abs(np.asarray(c["got"])).max(initial=0) > 0:
            nontriv.add(("val", json.dumps(c["spec"], sort_keys=True), c["what"]))
        elif kind == "lay" and (c.get("lay") or (c.get("ylay"), c.get("x0lay")) != ("C", "C")) and np.abs(np.asarray(c["got"])).max(initial=0) > 0:
            nontriv.add(("lay", c.get("name") or json.dumps(c["spec"], sort_keys=True), c.get("lay"), c.get("ylay"), c.get("x0lay"), tuple(c.get("xs", []))))
        elif kind == "attr" and c and c["kind"] > 0:
            nontriv.add(("attr", json.dumps(c["spec"], sort_keys=True)))
    fams = sorted(set((o["spec"].get("zoo") or [o["spec"].get("extra") or o["spec"]["expr"][0]])[0] for o in G["ops"]))
    nd_ne = sum(1 for o in G["ops"] if "attrs" in o and o["attrs"]["dims"] != o["attrs"]["dimsd"])
    R.cov.update(
        obligations=len(thms) + ncases, discharged=len(thms) + ncases - len(codes) + known_hits,
        checker_cmd="make -C coq + coqc State/ConfigFlag.v State/DotDispatch.v Corr/CheckC04.v Props/C04.v (Print Assumptions) + coqc .work/C04/{flag,dot,mv,attr,set,sol,val}_*.v (vm_compute; %d files)" % nfiles,
        theorems=thms, axioms_reported=axioms, evaluations=ncases, distinct_nontrivial=len(nontriv),
        rule="flag: all programs over {set T/F, obs, skip, raise, seq, with enabled, with disabled, try/except} of depth <= 3 (thorough: + 15000 random of depth 4 and 5 each) x both initial flags (x decorator form of `with disabled`); "
             "dot: per operator every layout {flat, dims, dims+(k,), (N,1), (N,k), +-1 sizes, reversed/swapped/merged dims, leading axis, dimsd-shaped, (1,N), (2,N)} x both flag values; "
             "non-trivial = flag program containing a context manager / dot case with N-d input or a rejected input / value case with non-zero output / attribute case of a compound; distinct by (operator spec, input shape, flag)",
        exhaustive_flag_depth=3, flag_cases=len(groups["flag"]) - 1, dot_cases=len(G["dot"]), mv_cases=len(G["mv"]), attr_cases=len(G["attr"]),
        setter_cases=len(sc), solver_cases=len(solc), value_cases=len(G["val"]), layout_cases=len(layc),
        layout_solvers=sorted(solver_setups()),
        operators=len([o for o in G["ops"] if "attrs" in o]), operators_dims_ne_dimsd=nd_ne, families=fams,
        dot_outcomes={k: sum(1 for c in G["dot"] if c["cls"].split(":")[0] == k) for k in ("ok", "ValueError", "Other")},
        forceflat={str(k): sum(1 for o in G["ops"] if "attrs" in o and o["attrs"]["ff"] is k) for k in (None, True, False)},
        t_python=round(t_py, 1), t_coq=round(t_coq, 1))
    R.samples = [{"flag_program": prog_str(fc[len(fc) // 3]["p"]), "init": fc[len(fc) // 3]["f0"], "observed(final,raised,trace)": fc[len(fc) // 3]["obs"]}] + \
        [{"op": c["spec"], "dims": c["dims"], "dimsd": c["dimsd"], "forceflat": c["ff"], "input_shape": c["xs"], "flag": c["flag"], "outcome": c["cls"], "out_shape": c["shape"]}
         for c in G["dot"][::max(1, len(G["dot"]) // 6)]]
    return R.finish()
