"""C05, Spread family: the numpy engine and the numba kernels of pylops.Spread
(look-up table and on-the-fly), and the Spread built by Radon2D / Radon3D,
against the code-shaped Gallina models of Ops/SpreadOp.v evaluated in Coq on
the SAME table literal (Corr/CheckSpread.v).  The all-tables theorems
(numpy model = numba model = documented formula, adjoint pair, linearity)
are in Props/C05spread.v.

run(R, tier) -> dict   adds violations / known findings to a shared Report
main(tier)             stand-alone run under PID C05
replay(rp)             re-run a recorded violation (rp["sub"] == "c05_spread")
"""
import json
import os
import subprocess
import sys
from fractions import Fraction

import numpy as np

from . import common

PID = "C05"
PROPS = "C05spread"
WORKID = "C05spread"
CANARY = 4999
TOL = 1e-9
VFILES = ["Ops/SpreadOp.v", "Corr/CheckSpread.v", "Props/C05spread.v"]
TAGS = {0: ("numpy", "table"), 1: ("numba", "table"), 2: ("numpy", "onthefly"), 3: ("numba", "onthefly")}
WEIGHTS = [0.0, 0.25, 0.5, 0.75]

# defects of the unchanged /repo found while building this check (to be moved to known_findings.json)
PROPOSED_KNOWN = []   # the fh-len2 defect found while building was repaired in /repo (commit 2259f71)


# ------------------------------------------------------------------ build
def ensure_compiled():
    """Until the files are listed in _CoqProject: compile them here, in order."""
    proj = open(os.path.join(common.COQDIR, "_CoqProject")).read()
    th = os.path.join(common.COQDIR, "theories")
    newest_dep = 0.0
    for rel in VFILES:
        v = os.path.join(th, rel)
        vo = v[:-2] + ".vo"
        if ("theories/" + rel) in proj and os.path.exists(vo) and os.path.getmtime(vo) >= os.path.getmtime(v):
            newest_dep = max(newest_dep, os.path.getmtime(vo))
            continue
        if not os.path.exists(vo) or os.path.getmtime(vo) < max(os.path.getmtime(v), newest_dep):
            p = subprocess.run(["timeout", "600", "coqc", "-Q", "theories", "PV", "theories/" + rel], cwd=common.COQDIR,
                               stdout=subprocess.PIPE, stderr=subprocess.STDOUT, text=True)
            if p.returncode != 0:
                sys.stdout.write(p.stdout[-3000:])
                raise SystemExit("coqc failed on " + rel)
        newest_dep = max(newest_dep, os.path.getmtime(vo))
    bad = common.forbidden_declarations()
    if bad:
        print("\n".join(bad))
        raise SystemExit("forbidden declaration in the Coq development")


# ------------------------------------------------------------------ cases
def gen_table(r, force=None):
    """Well-formed random table: entries in [0, nt-1] (or [0, nt-2] with
    interpolation) or NaN; weights from WEIGHTS."""
    force = force or {}
    interp = force.get("interp", r.random() < 0.5)
    nx0, nt0, nx = r.randint(1, 4), r.randint(1, 4), force.get("nx", r.randint(1, 4))
    nt = r.randint(2 if interp else 1, 7)
    dens = r.uniform(0.5, 1.0)
    hi = nt - 2 if interp else nt - 1
    f32 = r.random() < 0.3                                   # Radon stores float32 tables
    table = np.full((nx0, nt0, nx), np.nan, dtype=np.float32 if f32 else np.float64)
    dtable = np.full((nx0, nt0, nx), np.nan)
    nanw = r.random() < 0.5                                  # dtable NaN where table is NaN (as Radon) or filled
    for a in range(nx0):
        for b in range(nt0):
            for c in range(nx):
                if r.random() < dens:
                    table[a, b, c] = r.randint(0, hi)
                    dtable[a, b, c] = r.choice(WEIGHTS)
                elif not nanw:
                    dtable[a, b, c] = r.choice(WEIGHTS)
    return {"dims": [nx0, nt0], "dimsd": [nx, nt], "interp": bool(interp), "table": table,
            "dtable": dtable if interp else None, "density": dens}


def _numba_fh(table, dtable):
    import numba
    tb = np.ascontiguousarray(table)
    dt = np.ascontiguousarray(table if dtable is None else dtable)

    @numba.njit
    def fh(ix0, it):
        return tb[ix0, it], dt[ix0, it]
    return fh


def build(spec, tag):
    """pylops.Spread of a case for engine/variant tag."""
    import pylops
    engine, variant = TAGS[tag]
    dims, dimsd = tuple(spec["dims"]), tuple(spec["dimsd"])
    dtype = "complex128" if spec["cplx"] else "float64"
    table, dtable, interp = spec["table"], spec["dtable"], spec["interp"]
    if variant == "table":
        return pylops.Spread(dims, dimsd, table=table, dtable=dtable if interp else None, engine=engine, dtype=dtype)
    if engine == "numba":
        return pylops.Spread(dims, dimsd, fh=_numba_fh(table, dtable if interp else None), interp=interp, engine="numba", dtype=dtype)
    if interp:
        def fh(ix0, it):
            return table[ix0, it], dtable[ix0, it]
    else:
        def fh(ix0, it):
            return table[ix0, it]
    return pylops.Spread(dims, dimsd, fh=fh, engine="numpy", dtype=dtype)


def radon_specs(tier):
    out = []
    for kind in ("linear", "parabolic", "hyperbolic"):
        for interp in (False, True):
            for otf in (False, True):
                for engine in ("numpy", "numba"):
                    if tier == "quick" and engine == "numba" and otf and kind != "linear":
                        continue                                        # every numba on-the-fly operator recompiles the kernels
                    out.append({"radon": "Radon2D", "nt": 6, "nh": 3 if kind == "linear" else 4, "npx": 3, "kind": kind, "interp": interp,
                                "onthefly": otf, "engine": engine, "centeredh": kind != "parabolic"})
    for interp in (False, True):
        for otf in (False, True):
            for engine in ("numpy", "numba"):
                out.append({"radon": "Radon3D", "nt": 5, "nhy": 2, "nhx": 2, "npy": 2, "npx": 2, "kind": "linear", "interp": interp,
                            "onthefly": otf, "engine": engine})
    if tier == "thorough":
        for nt, nh, npx in ((7, 4, 4), (4, 3, 2), (5, 4, 1)):
            for interp in (False, True):
                for engine in ("numpy", "numba"):
                    for otf in (False, True):
                        out.append({"radon": "Radon2D", "nt": nt, "nh": nh, "npx": npx, "kind": "linear", "interp": interp,
                                    "onthefly": otf, "engine": engine, "centeredh": True})
    return out


def build_radon(s):
    from pylops import signalprocessing as sp
    t = np.arange(s["nt"]) * 1.0
    if s["radon"] == "Radon2D":
        h = np.arange(s["nh"]) * 1.0
        px = {"linear": np.linspace(-0.5, 0.75, s["npx"]), "parabolic": np.linspace(0, 0.25, s["npx"]),
              "hyperbolic": np.linspace(0.5, 2.0, s["npx"])}[s["kind"]] if s["npx"] > 1 else np.array([0.25])
        return sp.Radon2D(t, h, px, kind=s["kind"], centeredh=s["centeredh"], interp=s["interp"], onthefly=s["onthefly"], engine=s["engine"])
    return sp.Radon3D(t, np.arange(s["nhy"]) * 1.0, np.arange(s["nhx"]) * 1.0, np.linspace(-0.25, 0.5, s["npy"]),
                      np.linspace(-0.5, 0.25, s["npx"]), kind=s["kind"], interp=s["interp"], onthefly=s["onthefly"], engine=s["engine"])


def op_tables(op):
    """The index / weight tables the operator actually uses: the stored
    look-up table, or fh evaluated at every (ix0, it)."""
    nx0, nt0 = op.dims
    nx = op.dimsd[0]
    if op.usetable:
        table = np.asarray(op.table, dtype=float)
        dtable = None if (op.dtable is None or not op.interp) else np.asarray(op.dtable, dtype=float)
        return table, dtable
    table = np.full((nx0, nt0, nx), np.nan)
    dtable = np.full((nx0, nt0, nx), np.nan) if op.interp else None
    for a in range(nx0):
        for b in range(nt0):
            o = op.fh(a, b)
            if op.interp or op.engine == "numba":
                table[a, b] = np.asarray(o[0], dtype=float)
                if op.interp:
                    dtable[a, b] = np.asarray(o[1], dtype=float)
            else:
                table[a, b] = np.asarray(o, dtype=float)
    return table, dtable


def wellformed(table, nt, interp):
    v = table[~np.isnan(table)]
    return bool(np.all(v == np.floor(v)) and np.all(v >= 0) and np.all(v < (nt - 1 if interp else nt)))


def vectors(r, n, cplx, k=2):
    out = []
    for _ in range(k):
        v = np.array([r.randint(-3, 3) for _ in range(n)], dtype=float)
        if cplx:
            v = v + 1j * np.array([r.randint(-3, 3) for _ in range(n)], dtype=float)
        out.append(v)
    return out


def apply_op(op, direction, x):
    y = op.matvec(x) if direction == "forward" else op.rmatvec(x)
    return np.asarray(y)


def observe(case, ops, r):
    """Run forward / adjoint of every variant on common integer vectors."""
    n, m = int(np.prod(case["dims"])), int(np.prod(case["dimsd"]))
    xs, ys = vectors(r, n, case["cplx"]), vectors(r, m, case["cplx"])
    case["fw"], case["ad"], case["errors"] = [], [], []
    for tag, op in ops:
        for direction, vs, dest in (("forward", xs, case["fw"]), ("adjoint", ys, case["ad"])):
            for x in vs:
                try:
                    y = apply_op(op, direction, x.copy())
                    if not np.all(np.isfinite(y)):
                        raise FloatingPointError("non-finite output")
                    dest.append((tag, x, y))
                except Exception as e:                      # a variant that raises on a well-formed table
                    case["errors"].append((tag, direction, "%s: %s" % (type(e).__name__, e)))
                    break


# ------------------------------------------------------------------ coq
def optnat3(table):
    return "[" + ";\n    ".join("[" + "; ".join("[" + "; ".join("None" if np.isnan(v) else "Some %d%%nat" % int(v) for v in row) + "]"
                                                   for row in plane) + "]" for plane in table) + "]"


def q3(dtable, shape):
    if dtable is None:
        return "[]"
    return "[" + ";\n    ".join("[" + "; ".join(common.vlit([0.0 if np.isnan(v) else v for v in row]) for row in plane) + "]"
                                for plane in dtable) + "]"


def case_lit(c):
    pre = "sc" if c["cplx"] else "sr"

    def obs(l):
        return "[" + ";\n    ".join("(%d%%nat, %s, %s)" % (t, common.vlit(x, c["cplx"]), common.vlit(y, c["cplx"])) for t, x, y in l) + "]"
    return ("{| %s_id := %d%%nat; %s_nx0 := %d%%nat; %s_nt0 := %d%%nat; %s_nx := %d%%nat; %s_nt := %d%%nat; %s_interp := %s;\n"
            "   %s_tbl := %s;\n   %s_dtbl := %s;\n   %s_fw := %s;\n   %s_ad := %s |}"
            % (pre, c["id"], pre, c["dims"][0], pre, c["dims"][1], pre, c["dimsd"][0], pre, c["dimsd"][1], pre,
               "true" if c["interp"] else "false", pre, optnat3(c["table"]), pre, q3(c["dtable"], None), pre, obs(c["fw"]), pre, obs(c["ad"])))


def coq_eval(cases):
    d = common.workdir(WORKID)
    nan = np.nan
    can = {"id": CANARY, "cplx": False, "dims": [1, 2], "dimsd": [2, 3], "interp": False,
           "table": np.array([[[0.0, 1.0], [1.0, nan]]]), "dtable": None,
           "fw": [(0, np.array([1.0, 2.0]), np.array([1.0, 2.0, 0.0, 0.0, 1.0, 0.0])),       # right
                  (1, np.array([1.0, 2.0]), np.array([1.0, 2.0, 0.0, 0.0, 2.0, 0.0]))],      # wrong on purpose
           "ad": [(3, np.arange(6.0), np.array([4.0, 2.0]))]}                                # wrong on purpose (4, 1)
    allc = list(cases) + [can]
    nsh = max(1, min(common.NPROC, len(allc) // 6 + 1))
    tq = common.qlit(Fraction(TOL).limit_denominator(10 ** 15))
    names = []
    for k in range(nsh):
        sh = allc[k::nsh]
        if not sh:
            continue
        nm = "spread_%d" % k
        names.append(nm)
        with open(os.path.join(d, nm + ".v"), "w") as f:
            f.write("From Coq Require Import QArith Qcanon List.\nFrom PV Require Import Check GaussQc SpreadOp CheckSpread.\n"
                    "Import ListNotations.\nOpen Scope Qc_scope.\nDefinition tol : Qc := %s.\n" % tq)
            f.write("Definition r_cases : list spR := [\n%s].\n" % ";\n".join(case_lit(c) for c in sh if not c["cplx"]))
            f.write("Definition c_cases : list spC := [\n%s].\n" % ";\n".join(case_lit(c) for c in sh if c["cplx"]))
            f.write("Eval vm_compute in (failing sr_id (chkspR tol) r_cases ++ failing sc_id (chkspC tol) c_cases).\n")
    outs = common.run_coq_files(d, names)
    res = {}
    for n in names:
        res.update(common.parse_failing(outs[n]))
    if sorted(res.pop(CANARY, [])) != [11, 23]:
        raise RuntimeError("canary case not reported as expected: pipeline broken")
    return res


# ------------------------------------------------------------------ search
def _spec_json(c):
    return {"dims": list(c["dims"]), "dimsd": list(c["dimsd"]), "interp": c["interp"], "cplx": c["cplx"],
            "table": [[[None if np.isnan(v) else int(v) for v in row] for row in pl] for pl in c["table"]],
            "dtable": None if c["dtable"] is None else [[[None if np.isnan(v) else float(v) for v in row] for row in pl] for pl in c["dtable"]],
            "table_dtype": str(c["table"].dtype)}


def _spec_from_json(j):
    t = np.array([[[np.nan if v is None else v for v in row] for row in pl] for pl in j["table"]], dtype=j.get("table_dtype", "float64"))
    dt = None if j["dtable"] is None else np.array([[[np.nan if v is None else v for v in row] for row in pl] for pl in j["dtable"]], dtype=float)
    return {"dims": j["dims"], "dimsd": j["dimsd"], "interp": j["interp"], "cplx": j["cplx"], "table": t, "dtable": dt}


def reference(spec, direction, x):
    """Independent numpy evaluation of the documented formula (only used to
    phrase a violation / for replay; the verdict comes from Coq)."""
    (nx0, nt0), (nx, nt) = spec["dims"], spec["dimsd"]
    T, Dt, interp = spec["table"], spec["dtable"], spec["interp"]
    dt = complex if spec["cplx"] else float
    if direction == "forward":
        X = np.asarray(x, dtype=dt).reshape(nx0, nt0)
        Y = np.zeros((nx, nt), dtype=dt)
    else:
        X = np.zeros((nx0, nt0), dtype=dt)
        Y = np.asarray(x, dtype=dt).reshape(nx, nt)
    for a in range(nx0):
        for b in range(nt0):
            for c in range(nx):
                if np.isnan(T[a, b, c]):
                    continue
                k = int(T[a, b, c])
                w = [(k, 1.0)] if not interp else [(k, 1 - Dt[a, b, c]), (k + 1, Dt[a, b, c])]
                for kk, ww in w:
                    if direction == "forward":
                        Y[c, kk] += ww * X[a, b]
                    else:
                        X[a, b] += ww * Y[c, kk]
    return (Y if direction == "forward" else X).ravel()


def differ(a, b):
    a, b = np.asarray(a), np.asarray(b)
    return a.shape != b.shape or bool(np.abs(a - b).max(initial=0) > TOL * (1 + np.abs(b).max(initial=0)))


def search(c, tag, direction, ops):
    """Concrete failing input of the PROPERTY: a unit vector on which variant
    `tag` differs from another variant of the same operator (else from the
    documented formula)."""
    n = int(np.prod(c["dims"] if direction == "forward" else c["dimsd"]))
    dt = complex if c["cplx"] else float
    me = dict(ops)[tag]
    others = [(t, o) for t, o in ops if t != tag and not is_known_len2(c, t)]     # never judge against the variant with the recorded defect
    for j in range(n):
        e = np.zeros(n, dtype=dt)
        e[j] = 1
        try:
            a = apply_op(me, direction, e.copy())
        except Exception as ex:
            a = None
            err = "%s: %s" % (type(ex).__name__, ex)
        for t, o in others:
            try:
                b = apply_op(o, direction, e.copy())
            except Exception:
                continue
            if a is None:
                return {"unit": j, "other": t, "error": err}
            if differ(a, b):
                return {"unit": j, "other": t, "value": str(a.tolist()), "other_value": str(b.tolist())}
    for j in range(n):
        e = np.zeros(n, dtype=dt)
        e[j] = 1
        try:
            a = apply_op(me, direction, e.copy())
        except Exception:
            continue
        b = reference(c, direction, e)
        if differ(a, b):
            return {"unit": j, "other": "formula", "value": str(a.tolist()), "other_value": str(b.tolist())}
    return None


def is_known_len2(c, tag):
    return tag == 2 and not c["interp"] and c["dimsd"][0] == 2 and "radon" not in c


def is_known_len2_radon(s):
    nx = s["nh"] if s["radon"] == "Radon2D" else s["nhy"] * s["nhx"]
    return s["engine"] == "numpy" and s["onthefly"] and not s["interp"] and nx == 2


# ------------------------------------------------------------------ run
def run(R, tier):
    ensure_compiled()
    thms, axioms = common.props_assumptions(PROPS)
    if axioms and not set(axioms) <= common.ALLOWED_AXIOMS:
        R.violation("Props/C05spread.v depends on unexpected axioms %s" % axioms, {"sub": "c05_spread", "axioms": axioms}, no_input=True)
    known = {k["id"]: k for k in PROPOSED_KNOWN}
    for k in common.load_known():
        if k.get("property") == PID and k.get("id", "").startswith("C05-spread"):
            known[k["id"]] = k
    nrand = 90 if tier == "quick" else 500
    nfh = 6 if tier == "quick" else 20
    cases, opsof, skipped_numba_fh, nfh_done = [], {}, 0, 0
    # -- random tables
    for i in range(nrand):
        r = common.rng("c05spread", tier, i)
        force = {}
        if i < 4:
            force = {"nx": 2, "interp": False}                          # probes of the known len(fh(0,0)) == 2 defect
        c = gen_table(r, force)
        c.update(id=i, cplx=r.random() < 0.4, kind="random")
        tags = [0, 1, 2]
        if not force and not c["interp"] and c["dimsd"][0] == 2:
            tags = [0, 1]                                               # on-the-fly numpy is only probed in the dedicated cases
        if nfh_done < nfh and i % 3 == 1:
            tags.append(3)
        ops = []
        for t in tags:
            try:
                ops.append((t, build(c, t)))
                if t == 3:
                    nfh_done += 1
            except Exception as e:
                if t == 3:
                    skipped_numba_fh += 1
                    continue
                R.violation("Spread %s/%s cannot be constructed on a well-formed table: %s: %s" % (TAGS[t] + (type(e).__name__, e)),
                            {"sub": "c05_spread", "kind": "construct", "tag": t, "spec": _spec_json(c)})
        observe(c, ops, r)
        cases.append(c)
        opsof[i] = ops
    # -- Radon2D / Radon3D (their own tables, read from the operator)
    nradon = 0
    for s in radon_specs(tier):
        i = len(cases)
        r = common.rng("c05spread", tier, "radon", i)
        try:
            op = build_radon(s)
            table, dtable = op_tables(op)
        except Exception as e:
            R.violation("%s cannot be constructed: %s: %s" % (s, type(e).__name__, e), {"sub": "c05_spread", "kind": "construct-radon", "radon": s})
            continue
        if is_known_len2_radon(s):
            continue
        interp = bool(op.interp)
        if not wellformed(table, op.dimsd[1], interp):
            R.violation("%s builds a Spread table with entries outside [0, nt%s): out-of-bounds access" % (s, "-1" if interp else ""),
                        {"sub": "c05_spread", "kind": "radon-table", "radon": s})
            continue
        tag = (0 if s["engine"] == "numpy" else 1) + (2 if s["onthefly"] else 0)
        c = {"id": i, "cplx": False, "kind": "radon", "radon": s, "dims": list(op.dims), "dimsd": list(op.dimsd), "interp": interp,
             "table": table, "dtable": dtable}
        observe(c, [(tag, op)], r)
        cases.append(c)
        opsof[i] = [(tag, op)]
        nradon += 1
    # -- model vs implementation inside Coq
    codes = coq_eval(cases)
    byid = {c["id"]: c for c in cases}
    failed_ids = set()
    for c in cases:
        for tag, direction, err in c["errors"]:
            if is_known_len2(c, tag):
                R.known_finding("C05-spread-fh-len2", known["C05-spread-fh-len2"]["what"])
                continue
            codes.setdefault(c["id"], []).append((10 if direction == "forward" else 20) + tag)
    for i, cl in sorted(codes.items()):
        c = byid[i]
        for code in sorted(set(cl)):
            if code in (5, 6):
                raise RuntimeError("harness generated a malformed / ill-formed table (code %d) in case %d" % (code, i))
            direction, tag = ("forward", code - 10) if code < 20 else ("adjoint", code - 20)
            if is_known_len2(c, tag):
                R.known_finding("C05-spread-fh-len2", known["C05-spread-fh-len2"]["what"])
                continue
            failed_ids.add(i)
            ops = opsof[i]
            if "radon" in c:
                # compare with the table variant of the same engine-independent operator
                alt = dict(c["radon"], onthefly=False, engine="numpy" if c["radon"]["engine"] == "numba" else "numba")
                try:
                    ops = ops + [(9, build_radon(alt))]
                except Exception:
                    pass
            w = search(c, tag, direction, ops)
            rp = {"sub": "c05_spread", "kind": "radon" if "radon" in c else "spread", "tag": tag, "direction": direction, "spec": _spec_json(c)}
            if "radon" in c:
                rp["radon"] = c["radon"]
            name = "%s of %s" % (direction, ("%s(%s)" % (c["radon"]["radon"], c["radon"])) if "radon" in c else "Spread engine=%s %s" % TAGS[tag])
            if w is None:
                R.violation("%s no longer matches its Gallina model (SpreadOp.%s) on table case %d, but no unit vector separates it from the other variants"
                            % (name, "spread_matvec_*" if direction == "forward" else "spread_rmatvec_*", i), rp, no_input=True)
            else:
                rp.update(w)
                oth = w["other"]
                othn = "the documented formula" if oth == "formula" else ("the table/other-engine variant" if oth == 9 else "engine=%s %s" % TAGS[oth])
                R.violation("%s differs from %s on unit vector %d (dims %s -> %s, interp=%s): %s vs %s"
                            % (name, othn, w["unit"], c["dims"], c["dimsd"], c["interp"], w.get("value", w.get("error")), w.get("other_value")), rp)
    nobs = sum(len(c["fw"]) + len(c["ad"]) for c in cases)
    distinct = len(set(json.dumps(_spec_json(c), sort_keys=True) for c in cases
                       if np.any(~np.isnan(c["table"])) and any(np.any(y != 0) for _, _, y in c["fw"])))
    dist = {"random_tables": nrand, "radon_operators": nradon, "interp": sum(1 for c in cases if c["interp"]),
            "complex": sum(1 for c in cases if c["cplx"]), "float32_tables": sum(1 for c in cases if c["table"].dtype == np.float32),
            "numba_onthefly": nfh_done, "numba_onthefly_skipped": skipped_numba_fh,
            "per_variant": {"%s/%s" % TAGS[t]: sum(1 for c in cases for tt, _ in opsof[c["id"]] if tt == t) for t in TAGS}}
    samples = [{"dims": c["dims"], "dimsd": c["dimsd"], "interp": c["interp"], "cplx": c["cplx"],
                "table": _spec_json(c)["table"], "forward_in": str(c["fw"][0][1].tolist()) if c["fw"] else None,
                "forward_out": str(c["fw"][0][2].tolist()) if c["fw"] else None} for c in cases[5:8]]
    return {"theorems": thms, "axioms": axioms, "configurations": len(cases), "discharged": len(cases) - len(failed_ids),
            "evaluations": nobs, "distinct_nontrivial": distinct, "samples": samples, "distribution": dist,
            "rule": "random well-formed tables (nx0, nt0, nx <= 4, nt <= 7, density 0.5-1, weights in {0, .25, .5, .75}, float32/float64, real / Gaussian-integer data) "
                    "run through pylops.Spread numpy+table, numba+table, numpy+fh (and numba+fh with njit closures) plus Radon2D/Radon3D (table read from the operator); "
                    "2 forward + 2 adjoint integer vectors per variant compared in Coq (CheckSpread.chkspR/chkspC, 1e-9(1+|.|)) with spread_matvec/rmatvec_{numpy,numba}; "
                    "non-trivial = distinct table with a non-NaN entry and a non-zero forward output"}


def main(tier):
    R = common.Report(PID, tier)
    common.coq_build()
    res = run(R, tier)
    R.cov.update(obligations=len(res["theorems"]) + res["configurations"], discharged=len(res["theorems"]) + res["discharged"],
                 checker_cmd="coqc Ops/SpreadOp.v Corr/CheckSpread.v Props/C05spread.v (Print Assumptions) + coqc .work/C05spread/spread_*.v (vm_compute)",
                 theorems=res["theorems"], axioms_reported=res["axioms"], evaluations=res["evaluations"],
                 distinct_nontrivial=res["distinct_nontrivial"], rule=res["rule"], spread=res["distribution"])
    R.samples = res["samples"]
    return R.finish()


def replay(rp):
    kind = rp.get("kind")
    if kind in ("construct", "construct-radon", "radon-table") or "spec" not in rp or "unit" not in rp:
        try:
            if kind == "construct":
                build(_spec_from_json(rp["spec"]), rp["tag"])
            elif kind in ("construct-radon", "radon-table"):
                op = build_radon(rp["radon"])
                t, _ = op_tables(op)
                if kind == "radon-table" and not wellformed(t, op.dimsd[1], bool(op.interp)):
                    print("reproduced: table not well-formed")
                    return 1
            else:
                print("nothing to replay (no failing input recorded)")
                return 0
            print("not reproduced")
            return 0
        except Exception as e:
            print("reproduced: %s: %s" % (type(e).__name__, e))
            return 1
    c = _spec_from_json(rp["spec"])
    direction, tag, oth = rp["direction"], rp["tag"], rp["other"]
    n = int(np.prod(c["dims"] if direction == "forward" else c["dimsd"]))
    e = np.zeros(n, dtype=complex if c["cplx"] else float)
    e[rp["unit"]] = 1
    me = build_radon(rp["radon"]) if rp.get("kind") == "radon" else build(c, tag)
    try:
        a = apply_op(me, direction, e.copy())
    except Exception as ex:
        print("reproduced: variant raises %s: %s" % (type(ex).__name__, ex))
        return 1
    if oth == "formula":
        b = reference(c, direction, e)
    elif oth == 9:
        b = apply_op(build_radon(dict(rp["radon"], onthefly=False, engine="numpy" if rp["radon"]["engine"] == "numba" else "numba")), direction, e.copy())
    else:
        b = apply_op(build(c, int(oth)), direction, e.copy())
    print("variant :", a.tolist())
    print("other   :", b.tolist())
    bad = differ(a, b)
    print("reproduced" if bad else "not reproduced")
    return 1 if bad else 0


if __name__ == "__main__":
    if len(sys.argv) > 2 and sys.argv[1] == "replay":
        sys.exit(replay(json.load(open(sys.argv[2]))))
    sys.exit(main(sys.argv[1] if len(sys.argv) > 1 else "quick"))
