"""C03 — operator algebra mirrors matrix algebra.
Model: Algebra/Expr.v (deep embedding `expr`, `dense` = numpy evaluation on
the leaf matrices, `ap`/`apmat` = the private composite classes as coded,
`H`/`T`/`Cj` = .H/.T/.conj()); theorems in Props/C03.v hold for every tree.
Correspondence: grammar-generated, shape-consistent random trees are built
BOTH as pylops objects and as Gallina literals; matvec, rmatvec, matmat,
rmatmat of the root and of root.H, root.T, root.conj() are run on small
(Gaussian-)integer inputs and compared inside Coq with apmat (code 1) and
with dense (code 2).  Kronecker and toreal/toimag are in the Coq model too
(toreal/toimag at the R-linear level: real trees on real inputs = mode 1;
arbitrary forw/adj flags on complex inputs = mode 2, apmat only)."""
import json
import os
import subprocess
import time
import traceback
import warnings

import numpy as np

from . import common

PID = "C03"
TOL = 1e-9

# Defects of the unchanged /repo (proposed entries for known_findings.json)
PROPOSED_KNOWN = [
    {
        "id": "C03-K3",
        "property": "C03",
        "class": "VStack/HStack/BlockDiag",
        "trigger": "complex scalar times a stack of real operators built without dtype=",
        "what": "(1j*VStack([A, A])).rmatvec(y) raises UFuncTypeError / drops the imaginary part: the stack allocates its result with its own real dtype although it is applied to complex vectors by the enclosing complex operator",
    },
]

VFILES = ["Algebra/MatAlg.v", "Algebra/Expr.v", "Corr/CheckC03.v"]


def ensure_compiled():
    """Until integrated in _CoqProject: compile our own files if outdated."""
    th = os.path.join(common.COQDIR, "theories")
    newest_dep = 0.0
    for f in VFILES:
        v = os.path.join(th, f)
        vo = v + "o"
        newest_dep = max(newest_dep, os.path.getmtime(v))
        if not os.path.exists(vo) or os.path.getmtime(vo) < newest_dep:
            p = subprocess.run(["timeout", "600", "coqc", "-Q", "theories", "PV", "theories/" + f], cwd=common.COQDIR,
                               stdout=subprocess.PIPE, stderr=subprocess.STDOUT, text=True)
            if p.returncode != 0:
                raise SystemExit("coqc %s failed:\n%s" % (f, p.stdout[-3000:]))
            newest_dep = max(newest_dep, os.path.getmtime(vo))
    bad = subprocess.run("grep -nE '\\b(Admitted|admit|Axiom|Parameter|Conjecture)\\b' " + " ".join("theories/" + f for f in VFILES)
                         + " theories/Props/C03.v || true", shell=True, cwd=common.COQDIR, stdout=subprocess.PIPE, text=True).stdout.strip()
    if bad:
        raise SystemExit("forbidden declaration:\n" + bad)


# ------------------------------------------------------------------ trees
# A tree is a JSON-able dict; complex numbers are [re, im] integer pairs.
LIST_OPS = ("vstack", "hstack", "blockdiag")


def cnum(p):
    return complex(p[0], p[1])


def kids(t):
    op = t["op"]
    if op == "leaf":
        return []
    if op in ("add", "sub", "mul", "kron"):
        return [t["a"], t["b"]]
    if op in LIST_OPS:
        return list(t["es"])
    if op == "block":
        return [e for row in t["ess"] for e in row]
    return [t["a"]]


def contains(t, op):
    return t["op"] == op or any(contains(k, op) for k in kids(t))


def size(t):
    return 1 + sum(size(k) for k in kids(t))


def depth(t):
    return 1 + max([depth(k) for k in kids(t)], default=0)


def is_complex(t):
    """Is the region of the tree that receives the inputs complex?  A
    toreal/toimag node returns real vectors: the region above it is real
    (mode 2 = root toreal/toimag with arbitrary flags, driven with complex inputs)."""
    if t.get("mode2"):
        return True
    if t["op"] == "realimag":
        return False
    if t["op"] == "leaf":
        return any(c[1] != 0 for r in t["A"] for c in r) or t.get("cplx", False)
    if t["op"] == "scale" and t["alpha"][1] != 0:
        return True
    return any(is_complex(k) for k in kids(t))


def leaf_arr(t):
    A = np.array([[cnum(c) for c in r] for r in t["A"]], dtype=complex).reshape(t["m"], t["n"])
    return A if t.get("cplx", False) or np.abs(A.imag).max(initial=0) > 0 else A.real.copy()


def npd(t):
    """numpy evaluation of the tree on its leaf matrices (the oracle)."""
    op = t["op"]
    if op == "leaf":
        return leaf_arr(t)
    if op == "add":
        return npd(t["a"]) + npd(t["b"])
    if op == "sub":
        return npd(t["a"]) - npd(t["b"])
    if op == "mul":
        return npd(t["a"]) @ npd(t["b"])
    if op == "scale":
        al = cnum(t["alpha"])
        return (al if t["alpha"][1] != 0 or t.get("calpha") else al.real) * npd(t["a"])
    if op == "neg":
        return -npd(t["a"])
    if op == "pow":
        return np.linalg.matrix_power(npd(t["a"]), t["p"])
    if op == "H":
        return npd(t["a"]).conj().T
    if op == "T":
        return npd(t["a"]).T
    if op == "conj":
        return npd(t["a"]).conj()
    if op == "cols":
        return npd(t["a"])[:, t["cs"]]
    if op == "vstack":
        return np.vstack([npd(e) for e in t["es"]])
    if op == "hstack":
        return np.hstack([npd(e) for e in t["es"]])
    if op == "blockdiag":
        Ms = [npd(e) for e in t["es"]]
        out = np.zeros((sum(M.shape[0] for M in Ms), sum(M.shape[1] for M in Ms)), dtype=np.result_type(*Ms))
        i = j = 0
        for M in Ms:
            out[i:i + M.shape[0], j:j + M.shape[1]] = M
            i += M.shape[0]
            j += M.shape[1]
        return out
    if op == "block":
        return np.block([[npd(e) for e in row] for row in t["ess"]])
    if op == "kron":
        return np.kron(npd(t["a"]), npd(t["b"]))
    if op == "realimag":      # toreal() / toimag() (forw = adj = True): Re(A) / Im(A) on real vectors
        D = npd(t["a"])
        return np.real(D).copy() if t["real"] else np.imag(D).copy()
    raise ValueError(op)


def mode_of(t):
    """0 = C-linear tree, 1 = toreal/toimag inside a real tree (real inputs),
    2 = root toreal/toimag with arbitrary flags and complex inputs (operational model only)."""
    if t.get("mode2"):
        return 2
    return 1 if contains(t, "realimag") else 0


_FORCE = [False]   # mode 2: complex vectors reach every node, build every stack complex


def build(t, dt):
    """The same tree as a pylops operator. dt = dtype handed to the stacking
    operators and Kronecker (pylops convention: the user passes dtype)."""
    import pylops
    op = t["op"]
    if op == "leaf":
        A = leaf_arr(t)
        return pylops.MatrixMult(A, dtype=A.dtype)
    if op == "add":
        return build(t["a"], dt) + build(t["b"], dt)
    if op == "sub":
        return build(t["a"], dt) - build(t["b"], dt)
    if op == "mul":
        return build(t["a"], dt) @ build(t["b"], dt) if t.get("at", True) else build(t["a"], dt) * build(t["b"], dt)
    if op == "scale":
        al = cnum(t["alpha"])
        al = al if t["alpha"][1] != 0 or t.get("calpha") else float(al.real)
        return al * build(t["a"], dt) if t.get("left", True) else build(t["a"], dt) * al
    if op == "neg":
        return -build(t["a"], dt)
    if op == "pow":
        return build(t["a"], dt) ** t["p"]
    if op == "H":
        return build(t["a"], dt).H
    if op == "T":
        return build(t["a"], dt).T
    if op == "conj":
        return build(t["a"], dt).conj()
    if op == "cols":
        return build(t["a"], dt).apply_columns(list(t["cs"]))
    if op == "vstack":
        return pylops.VStack([build(e, dt) for e in t["es"]], dtype=None if t.get("nodt") else dt)
    if op == "hstack":
        return pylops.HStack([build(e, dt) for e in t["es"]], dtype=None if t.get("nodt") else dt)
    if op == "blockdiag":
        return pylops.BlockDiag([build(e, dt) for e in t["es"]], dtype=None if t.get("nodt") else dt)
    if op == "block":
        return pylops.Block([[build(e, dt) for e in row] for row in t["ess"]], dtype=None if t.get("nodt") else dt)
    if op == "kron":
        return pylops.Kronecker(build(t["a"], dt), build(t["b"], dt), dtype=dt)
    if op == "realimag":
        sub = build(t["a"], np.complex128 if (_FORCE[0] or is_complex(t["a"]) or t.get("mode2")) else np.float64)
        return sub.toreal(forw=t["fw"], adj=t["aj"]) if t["real"] else sub.toimag(forw=t["fw"], adj=t["aj"])
    raise ValueError(op)


def gl(c):
    return "(%s, %s)" % (common.qlit(int(c[0])), common.qlit(int(c[1])))


def gallina(t):
    op = t["op"]
    if op == "leaf":
        return "(L %d %d [%s])" % (t["m"], t["n"], "; ".join("[" + "; ".join(gl(c) for c in r) + "]" for r in t["A"]))
    if op in ("add", "sub", "mul"):
        return "(%s %s %s)" % (op.capitalize(), gallina(t["a"]), gallina(t["b"]))
    if op == "scale":
        return "(SC %s %s)" % (gl(t["alpha"]), gallina(t["a"]))
    if op == "neg":
        return "(Neg %s)" % gallina(t["a"])
    if op == "pow":
        return "(Pow %s %d)" % (gallina(t["a"]), t["p"])
    if op == "H":
        return "(H GS %s)" % gallina(t["a"])
    if op == "T":
        return "(TranspW %s)" % gallina(t["a"])
    if op == "conj":
        return "(ConjE %s)" % gallina(t["a"])
    if op == "cols":
        return "(Cols %s %s)" % (common.natlist(t["cs"]), gallina(t["a"]))
    if op in LIST_OPS:
        return "(%s [%s])" % ({"vstack": "VStack", "hstack": "HStack", "blockdiag": "BlockDiag"}[op], "; ".join(gallina(e) for e in t["es"]))
    if op == "kron":
        return "(Kron %s %s)" % (gallina(t["a"]), gallina(t["b"]))
    if op == "realimag":
        b = lambda x: "true" if x else "false"
        return "(RealImag %s %s %s %s)" % (b(t["fw"]), b(t["aj"]), b(t["real"]), gallina(t["a"]))
    if op == "block":
        return "(Block GS [%s])" % "; ".join("[" + "; ".join(gallina(e) for e in row) + "]" for row in t["ess"])
    raise ValueError(op)


# ------------------------------------------------------------------ generator
def split(r, total, k):
    """total = sum of k positive parts."""
    cuts = sorted(r.sample(range(1, total), k - 1))
    return [b - a for a, b in zip([0] + cuts, cuts + [total])]


def infer_complex_dtype(t):
    """Would pylops give this node a complex dtype (stacks get the tree dtype)?"""
    op = t["op"]
    if op == "leaf":
        return np.iscomplexobj(leaf_arr(t))
    if op == "scale":
        return t["alpha"][1] != 0 or bool(t.get("calpha")) or infer_complex_dtype(t["a"])
    if op == "realimag":
        return False
    if op in LIST_OPS or op in ("block", "kron"):
        return None  # tree dtype
    if op in ("add", "sub", "mul"):
        a, b = infer_complex_dtype(t["a"]), infer_complex_dtype(t["b"])
        return None if (a is None or b is None) and not (a or b) else bool(a or b)
    return infer_complex_dtype(t["a"])


def gen_outer(r, m, n, d, cfg):
    """Real-coefficient tree (the constructors covered by Expr.rwf) whose
    toreal()/toimag() nodes wrap complex C-linear trees."""
    ops = ["leaf", "realimag"]
    if d > 0:
        ops += ["add", "sub", "mul", "scale", "neg", "H", "T", "conj", "realimag", "realimag", "cols"]
        if m == n:
            ops += ["pow"]
        if m >= 2:
            ops += ["vstack", "vstack"]
        if n >= 2:
            ops += ["hstack", "hstack"]
        if m >= 2 and n >= 2:
            ops += ["blockdiag", "blockdiag", "block"]
        if (m in (4, 6) or n in (4, 6)) or r.random() < 0.15:
            ops += ["kron", "kron"]
        if r.random() < 0.85:
            ops.remove("leaf")
    op = r.choice(ops)
    g = lambda mm, nn: gen_outer(r, mm, nn, d - 1, cfg)
    if op == "cols":
        n2 = n + r.randint(0, 2)
        return {"op": "cols", "cs": r.sample(range(n2), n), "a": g(m, n2)}
    if op == "vstack":
        return {"op": "vstack", "es": [g(mi, n) for mi in split(r, m, r.randint(2, min(3, m)))]}
    if op == "hstack":
        return {"op": "hstack", "es": [g(m, ni) for ni in split(r, n, r.randint(2, min(3, n)))]}
    if op == "blockdiag":
        k = r.randint(2, min(3, m, n))
        return {"op": "blockdiag", "es": [g(mi, ni) for mi, ni in zip(split(r, m, k), split(r, n, k))]}
    if op == "block":
        ms, ns = split(r, m, 2), split(r, n, 2)
        return {"op": "block", "ess": [[gen_outer(r, mi, ni, max(d - 2, 0), cfg) for ni in ns] for mi in ms]}
    if op == "kron":
        dm = [k for k in range(1, m + 1) if m % k == 0]
        dn = [k for k in range(1, n + 1) if n % k == 0]
        m1 = r.choice(dm[1:-1] if len(dm) > 2 and r.random() < 0.7 else dm)
        n1 = r.choice(dn[1:-1] if len(dn) > 2 and r.random() < 0.7 else dn)
        return {"op": "kron", "a": g(m1, n1), "b": g(m // m1, n // n1)}
    if op == "leaf":
        return {"op": "leaf", "m": m, "n": n, "cplx": False, "A": [[[r.randint(-3, 3), 0] for _ in range(n)] for _ in range(m)]}
    if op == "realimag":
        inner = dict(cfg, cplx=True, kron=True, cols_nested=True)
        a = gen(r, m, n, max(d - 1, 0), inner) if r.random() < 0.8 else g(m, n)
        return {"op": "realimag", "fw": True, "aj": True, "real": r.random() < 0.5, "a": a}
    if op in ("add", "sub"):
        return {"op": op, "a": g(m, n), "b": g(m, n)}
    if op == "mul":
        k = r.randint(1, cfg["maxdim"])
        return {"op": "mul", "a": g(m, k), "b": g(k, n), "at": r.random() < 0.5}
    if op == "scale":
        return {"op": "scale", "alpha": [r.choice([-3, -2, -1, 2, 3]), 0], "a": g(m, n), "left": r.random() < 0.5}
    if op == "neg":
        return {"op": "neg", "a": g(m, n)}
    if op == "pow":
        return {"op": "pow", "p": r.randint(0, 2), "a": g(m, m)}
    if op in ("H", "T"):
        return {"op": op, "a": g(n, m)}
    return {"op": "conj", "a": g(m, n)}


def gen(r, m, n, d, cfg):
    ops = ["leaf"]
    if d > 0:
        ops += ["add", "sub", "mul", "mul", "scale", "neg", "H", "T", "conj"]
        if m == n:
            ops += ["pow", "pow"]
        if m >= 2:
            ops += ["vstack"]
        if n >= 2:
            ops += ["hstack"]
        if m >= 2 and n >= 2:
            ops += ["blockdiag", "block"]
        if (cfg["kron"] and r.random() < 0.5) or r.random() < 0.06:
            ops += ["kron"]
        if cfg["cols_nested"] and r.random() < 0.3:
            ops += ["cols"]
        if cfg.get("ri"):
            ops += ["realimag", "realimag"]
        if r.random() < 0.8:
            ops.remove("leaf")
    op = r.choice(ops)
    g = lambda mm, nn: gen(r, mm, nn, d - 1, cfg)
    if op == "realimag":
        return {"op": "realimag", "fw": r.random() < 0.6, "aj": r.random() < 0.6, "real": r.random() < 0.5, "a": g(m, n)}
    if op == "leaf":
        cplx = cfg["cplx"] and r.random() < 0.5
        A = [[[r.randint(-3, 3), r.randint(-3, 3) if cplx else 0] for _ in range(n)] for _ in range(m)]
        return {"op": "leaf", "m": m, "n": n, "A": A, "cplx": cplx}
    if op in ("add", "sub"):
        return {"op": op, "a": g(m, n), "b": g(m, n)}
    if op == "mul":
        k = r.randint(1, cfg["maxdim"])
        return {"op": "mul", "a": g(m, k), "b": g(k, n), "at": r.random() < 0.5}
    if op == "scale":
        if cfg["cplx"] and r.random() < 0.6:
            al = [r.randint(-2, 2), r.choice([-2, -1, 1, 2])]
        else:
            al = [r.choice([-3, -2, -1, 2, 3, 0]), 0]
        return {"op": "scale", "alpha": al, "a": g(m, n), "left": r.random() < 0.5}
    if op == "neg":
        return {"op": "neg", "a": g(m, n)}
    if op == "pow":
        return {"op": "pow", "p": r.randint(0, cfg["maxpow"]), "a": g(m, m)}
    if op in ("H", "T"):
        return {"op": op, "a": g(n, m)}
    if op == "conj":
        return {"op": "conj", "a": g(m, n)}
    if op == "cols":
        return gen_cols(r, m, n, d, cfg)
    if op == "vstack":
        return {"op": "vstack", "es": [g(mi, n) for mi in split(r, m, r.randint(2, min(3, m)))]}
    if op == "hstack":
        return {"op": "hstack", "es": [g(m, ni) for ni in split(r, n, r.randint(2, min(3, n)))]}
    if op == "blockdiag":
        k = r.randint(2, min(3, m, n))
        return {"op": "blockdiag", "es": [g(mi, ni) for mi, ni in zip(split(r, m, k), split(r, n, k))]}
    if op == "block":
        ms, ns = split(r, m, 2), split(r, n, 2)
        return {"op": "block", "ess": [[gen(r, mi, ni, max(d - 2, 0), cfg) for ni in ns] for mi in ms]}
    if op == "kron":
        dm = [k for k in range(1, m + 1) if m % k == 0]
        dn = [k for k in range(1, n + 1) if n % k == 0]
        # prefer non-trivial factors (the reshape / two-pass logic is invisible with 1-sized factors)
        m1 = r.choice(dm[1:-1] if len(dm) > 2 and r.random() < 0.7 else dm)
        n1 = r.choice(dn[1:-1] if len(dn) > 2 and r.random() < 0.7 else dn)
        return {"op": "kron", "a": g(m1, n1), "b": g(m // m1, n // n1)}
    raise ValueError(op)


def gen_cols(r, m, n, d, cfg):
    n2 = n + r.randint(0, 2)
    a = gen(r, m, n2, max(d - 1, 0), cfg)
    if r.random() < 0.15:
        a = {"op": "conj", "a": a}      # regression guard: conj().apply_columns()
    if cfg["cplx"] and a["op"] != "leaf" and not infer_complex_dtype(a):
        # the column operator allocates with its own dtype: make it complex
        a = {"op": "scale", "alpha": [r.randint(-2, 2), r.choice([-1, 1, 2])], "a": a, "left": True}
    return {"op": "cols", "cs": r.sample(range(n2), n), "a": a}


def gen_natdtype(r, m, n, d, cfg):
    """A stack built WITHOUT dtype= (pylops infers it from its blocks) whose
    blocks all have a complex pylops dtype: complex scalar times a real
    subtree, or a complex leaf."""
    m, n = max(m, 2), max(n, 2)
    real_cfg = dict(cfg, cplx=False, kron=False, cols_nested=False)

    def blk(mi, ni):
        if r.random() < 0.7:
            return {"op": "scale", "alpha": [r.randint(-2, 2), r.choice([-2, -1, 1, 2])], "left": r.random() < 0.5,
                    "a": gen(r, mi, ni, max(d - 1, 0), real_cfg)}
        return {"op": "leaf", "m": mi, "n": ni, "cplx": True,
                "A": [[[r.randint(-3, 3), r.randint(-3, 3)] for _ in range(ni)] for _ in range(mi)]}
    op = r.choice(["vstack", "hstack", "blockdiag", "block"])
    if op == "vstack":
        t = {"op": op, "es": [blk(mi, n) for mi in split(r, m, 2)]}
    elif op == "hstack":
        t = {"op": op, "es": [blk(m, ni) for ni in split(r, n, 2)]}
    elif op == "blockdiag":
        t = {"op": op, "es": [blk(mi, ni) for mi, ni in zip(split(r, m, 2), split(r, n, 2))]}
    else:
        t = {"op": op, "ess": [[blk(mi, ni) for ni in split(r, n, 2)] for mi in split(r, m, 2)]}
    t["nodt"] = True
    w = r.choice(["none", "neg", "H", "conj", "scale"])
    if w == "scale":
        return {"op": "scale", "alpha": [r.choice([-2, 2, 3]), 0], "left": True, "a": t}
    return t if w == "none" else {"op": w, "a": t}


def gen_tree(r, tier, kind):
    maxd = 3 if tier == "quick" else 5
    cfg = {"cplx": kind != "real", "maxdim": 4 if tier == "quick" else 5, "maxpow": 3,
           "kron": kind == "kron", "cols_nested": kind == "colsnested"}
    d = r.randint(1, maxd)
    dims = [1, 1, 2, 2, 3, 3, 4] + ([5] if tier != "quick" else [])
    m, n = r.choice(dims), r.choice(dims)
    if kind == "kron" or (kind in ("realimag", "realimag_nest") and r.random() < 0.35):
        m, n = r.choice([2, 4, 4, 6, 6]), r.choice([2, 4, 4, 6, 6])
    for _ in range(200):
        if kind == "colsroot":
            t = gen_cols(r, m, n, d, cfg)
        elif kind == "natdtype":
            t = gen_natdtype(r, m, n, d, cfg)
        elif kind == "realimag":
            t = gen_outer(r, m, n, d, cfg)
            if not contains(t, "realimag"):
                continue
        elif kind == "realimag_op":
            t = {"op": "realimag", "fw": r.random() < 0.6, "aj": r.random() < 0.6, "real": r.random() < 0.5,
                 "mode2": True, "a": gen(r, m, n, d, dict(cfg, kron=True))}
        elif kind == "realimag_nest":
            # toreal/toimag with arbitrary flags anywhere below stacks / apply_columns / Kronecker, complex inputs
            t = gen(r, m, n, max(d, 2), dict(cfg, kron=True, cols_nested=True, ri=True))
            if not contains(t, "realimag") or t["op"] == "realimag":
                continue
            t = dict(t, mode2=True)
        else:
            t = gen(r, m, n, d, cfg)
        if size(t) > (40 if tier == "quick" else 90):
            continue
        if kind == "kron" and not contains(t, "kron"):
            continue
        if kind == "colsnested" and (not contains(t, "cols") or t["op"] == "cols"):
            continue
        if np.abs(npd(t)).max(initial=0) > 1e6:
            continue
        return t
    return t


# ------------------------------------------------------------------ running
VIEWS = ["root", "H", "T", "conj"]
CALLS = ["matvec", "rmatvec", "matmat", "rmatmat"]


def view_of(Op, v):
    return Op if v == "root" else Op.H if v == "H" else Op.T if v == "T" else Op.conj()


def view_np(D, v):
    return D if v == "root" else D.conj().T if v == "H" else D.T if v == "T" else D.conj()


def inputs(r, t, cplx):
    """integer inputs for the 16 calls: {(view, call): X (n x K)}"""
    m, n = npd(t).shape
    out = {}
    for v in VIEWS:
        vm, vn = (m, n) if v in ("root", "conj") else (n, m)
        for c in CALLS:
            N = vn if c in ("matvec", "matmat") else vm
            K = 1 if c in ("matvec", "rmatvec") else 2
            X = np.array([[r.randint(-4, 4) for _ in range(K)] for _ in range(N)], dtype=float).reshape(N, K)
            if cplx:
                X = X + 1j * np.array([[r.randint(-4, 4) for _ in range(K)] for _ in range(N)], dtype=float).reshape(N, K)
            out[(v, c)] = X
    return out


def run_call(Opv, c, X):
    if c == "matvec":
        return np.asarray(Opv.matvec(X[:, 0].copy())).reshape(-1, 1)
    if c == "rmatvec":
        return np.asarray(Opv.rmatvec(X[:, 0].copy())).reshape(-1, 1)
    if c == "matmat":
        return np.asarray(Opv.matmat(X.copy()))
    return np.asarray(Opv.rmatmat(X.copy()))


def expected(D, v, c, X):
    Dv = view_np(D, v)
    return Dv @ X if c in ("matvec", "matmat") else Dv.conj().T @ X


def np_ap(t, adj, X):
    """numpy twin of the operational semantics (R-linear trees, any input):
    what the expression computes on the columns of X, written on the leaf
    matrices; used as the oracle for trees with toreal/toimag nodes with
    arbitrary flags (mode 2)."""
    op = t["op"]
    X = np.asarray(X, dtype=complex)
    if op == "leaf":
        A = leaf_arr(t)
        return (A.conj().T if adj else A) @ X
    if op == "add":
        return np_ap(t["a"], adj, X) + np_ap(t["b"], adj, X)
    if op == "sub":
        return np_ap(t["a"], adj, X) - np_ap(t["b"], adj, X)
    if op == "mul":
        return np_ap(t["b"], adj, np_ap(t["a"], adj, X)) if adj else np_ap(t["a"], adj, np_ap(t["b"], adj, X))
    if op == "scale":
        al = cnum(t["alpha"])
        return (np.conj(al) if adj else al) * np_ap(t["a"], adj, X)
    if op == "neg":
        return -np_ap(t["a"], adj, X)
    if op == "pow":
        for _ in range(t["p"]):
            X = np_ap(t["a"], adj, X)
        return X
    if op == "H":
        return np_ap(t["a"], not adj, X)
    if op == "T":
        return np.conj(np_ap(t["a"], not adj, np.conj(X)))
    if op == "conj":
        return np.conj(np_ap(t["a"], adj, np.conj(X)))
    if op == "cols":
        if adj:
            return np_ap(t["a"], True, X)[t["cs"], :]
        Z = np.zeros((npd(t["a"]).shape[1], X.shape[1]), dtype=complex)
        Z[t["cs"], :] = X
        return np_ap(t["a"], False, Z)
    if op == "block":
        return np_ap({"op": "vstack", "es": [{"op": "hstack", "es": row} for row in t["ess"]]}, adj, X)
    if op in LIST_OPS:
        shp = [npd(e).shape for e in t["es"]]
        ro = np.concatenate([[0], np.cumsum([sh[0] for sh in shp])])
        co = np.concatenate([[0], np.cumsum([sh[1] for sh in shp])])
        es = t["es"]
        if op == "vstack":
            return (sum(np_ap(e, True, X[ro[i]:ro[i + 1]]) for i, e in enumerate(es)) if adj
                    else np.vstack([np_ap(e, False, X) for e in es]))
        if op == "hstack":
            return (np.vstack([np_ap(e, True, X) for e in es]) if adj
                    else sum(np_ap(e, False, X[co[i]:co[i + 1]]) for i, e in enumerate(es)))
        return np.vstack([np_ap(e, adj, X[(ro if adj else co)[i]:(ro if adj else co)[i + 1]]) for i, e in enumerate(es)])
    if op == "kron":
        (m1, n1), (m2, n2) = npd(t["a"]).shape, npd(t["b"]).shape
        k1, k2 = (m1, m2) if adj else (n1, n2)
        outs = []
        for k in range(X.shape[1]):
            Xm = X[:, k].reshape(k1, k2)
            Y = np_ap(t["b"], adj, Xm.T).T
            outs.append(np_ap(t["a"], adj, Y).ravel())
        return np.array(outs).T.reshape(-1, X.shape[1])
    if op == "realimag":
        Y = np_ap(t["a"], adj, X)
        if adj and t["aj"]:
            Y = (Y.real if t["real"] else -Y.imag) + 0j
        if not adj and t["fw"]:
            Y = (Y.real if t["real"] else Y.imag) + 0j
        return Y
    raise ValueError(op)


def expected_tree(t, v, c, X):
    """numpy evaluation of one call on the tree."""
    if mode_of(t) != 2:
        return expected(npd(t), v, c, X)
    first = c in ("matvec", "matmat")
    if v == "root":
        return np_ap(t, not first, X)
    if v == "H":
        return np_ap(t, first, X)
    if v == "T":
        return np.conj(np_ap(t, first, np.conj(X)))
    return np.conj(np_ap(t, not first, np.conj(X)))


def run_tree(t, X):
    """Runs the implementation. Returns {(view, call): Y | exception}."""
    cplx = is_complex(t)
    dt = np.complex128 if cplx else np.float64
    res = {}
    with warnings.catch_warnings():
        warnings.simplefilter("ignore")
        try:
            _FORCE[0] = mode_of(t) == 2
            Op = build(t, dt)
        except Exception as e:  # noqa
            return {k: e for k in X}
        for v in VIEWS:
            try:
                Opv = view_of(Op, v)
            except Exception as e:  # noqa
                for c in CALLS:
                    res[(v, c)] = e
                continue
            for c in CALLS:
                try:
                    res[(v, c)] = run_call(Opv, c, X[(v, c)])
                except Exception as e:  # noqa
                    res[(v, c)] = e
    return res


def disagree(t, v, c, X):
    """Pure implementation-vs-numpy test of one call; returns None if they
    agree, else (observed, expected)."""
    cplx = is_complex(t)
    dt = np.complex128 if cplx else np.float64
    exp = expected_tree(t, v, c, X)
    with warnings.catch_warnings():
        warnings.simplefilter("ignore")
        try:
            _FORCE[0] = mode_of(t) == 2
            Y = run_call(view_of(build(t, dt), v), c, X)
        except Exception as e:  # noqa
            return ("%s: %s" % (type(e).__name__, e), exp)
    if Y.shape != exp.shape or np.abs(Y - exp).max(initial=0) > TOL * (1 + np.abs(exp).max(initial=0)):
        return (Y, exp)
    return None


def as_leaf(t):
    D = npd(t)
    cplx = np.iscomplexobj(D)
    if np.abs(D - np.round(D)).max(initial=0) > 0 or np.abs(D).max(initial=0) > 1e6:
        return None
    return {"op": "leaf", "m": D.shape[0], "n": D.shape[1], "cplx": bool(cplx),
            "A": [[[int(round(complex(c).real)), int(round(complex(c).imag))] for c in row] for row in D]}


def replace_at(t, path, new):
    if not path:
        return new
    t = dict(t)
    k, rest = path[0], path[1:]
    if isinstance(k, tuple):
        key, i = k
        if key == "ess":
            ess = [list(row) for row in t["ess"]]
            ess[i[0]][i[1]] = replace_at(ess[i[0]][i[1]], rest, new)
            t["ess"] = ess
        else:
            es = list(t["es"])
            es[i] = replace_at(es[i], rest, new)
            t["es"] = es
    else:
        t[k] = replace_at(t[k], rest, new)
    return t


def paths(t, pre=()):
    out = []
    op = t["op"]
    if op == "leaf":
        return out
    if pre:
        out.append(pre)
    if op in LIST_OPS:
        for i, e in enumerate(t["es"]):
            out += paths(e, pre + (("es", i),))
    elif op == "block":
        for i, row in enumerate(t["ess"]):
            for j, e in enumerate(row):
                out += paths(e, pre + (("ess", (i, j)),))
    else:
        for k in ("a", "b"):
            if k in t:
                out += paths(t[k], pre + (k,))
    return out


def get_at(t, path):
    for k in path:
        if isinstance(k, tuple):
            t = t["ess"][k[1][0]][k[1][1]] if k[0] == "ess" else t["es"][k[1]]
        else:
            t = t[k]
    return t


def shrink(t, v, c, X, pred=None):
    """Replace subtrees by MatrixMult leaves holding their dense value while
    the disagreement persists."""
    pred = pred or (lambda tt: disagree(tt, v, c, X) is not None)
    changed = True
    while changed:
        changed = False
        for p in sorted(paths(t), key=len):
            sub = get_at(t, p)
            lf = as_leaf(sub)
            if lf is None:
                continue
            t2 = replace_at(t, p, lf)
            if is_complex(t2) != is_complex(t):
                continue
            try:
                if pred(t2):
                    t, changed = t2, True
                    break
            except Exception:  # noqa
                continue
    return t


def show(t):
    op = t["op"]
    if op == "leaf":
        return "M%dx%d%s" % (t["m"], t["n"], "c" if t.get("cplx") else "")
    if op in ("add", "sub", "mul", "kron"):
        return "%s(%s, %s)" % (op, show(t["a"]), show(t["b"]))
    if op in LIST_OPS:
        return "%s[%s]" % (op, ", ".join(show(e) for e in t["es"]))
    if op == "block":
        return "block[%s]" % "; ".join(", ".join(show(e) for e in row) for row in t["ess"])
    if op == "realimag":
        return "%s<forw=%s,adj=%s>(%s)" % ("toreal" if t["real"] else "toimag", t["fw"], t["aj"], show(t["a"]))
    extra = {"scale": lambda: str(cnum(t["alpha"])), "pow": lambda: str(t["p"]), "cols": lambda: str(t["cs"])}.get(op, lambda: "")()
    return "%s%s(%s)" % (op, "<" + extra + ">" if extra else "", show(t["a"]))


def jz(X):
    return [[[float(np.real(c)), float(np.imag(c))] for c in row] for row in np.asarray(X)]


def unjz(L, cplx):
    A = np.array([[complex(c[0], c[1]) for c in row] for row in L], dtype=complex)
    return A if cplx else A.real.copy()


def replay(rp):
    t = rp["tree"]
    if rp.get("kind") == "exception":
        res = run_tree(t, {(rp["view"], rp["call"]): unjz(rp["X"], is_complex(t))})
        e = res[(rp["view"], rp["call"])]
        bad = isinstance(e, Exception)
        print("tree:", show(t), "->", "%s: %s" % (type(e).__name__, e) if bad else "no exception")
    else:
        X = unjz(rp["X"], is_complex(t))
        d = disagree(t, rp["view"], rp["call"], X)
        bad = d is not None
        print("tree:", show(t), "view:", rp["view"], "call:", rp["call"])
        if bad:
            print("observed:", d[0] if isinstance(d[0], str) else np.asarray(d[0]).ravel()[:8], "\nexpected:", np.asarray(d[1]).ravel()[:8])
    print("reproduced" if bad else "not reproduced")
    return 1 if bad else 0


# ------------------------------------------------------------------ main
HEADER = """From Coq Require Import QArith Qcanon ZArith List.
From PV Require Import Dict Vec Dot Mat QcInst GaussQc Check MatAlg Expr CheckC03.
Import ListNotations.
Definition L (m n : nat) (M : list (list G)) : E := @Leaf GS m n M.
Definition SC (a : G) (e : E) : E := @Scale GS a e.
Definition tol : Qc := q 1 1000000000.
"""


def cols_lit(Y):
    Y = np.asarray(Y)
    return "[" + "; ".join(common.vlit(Y[:, k], cplx=True) for k in range(Y.shape[1])) + "]"


def case_lit(cid, t, calls):
    cs = []
    for (v, c, X, Y) in calls:
        cs.append("{| c_view := %d; c_dir := %d; c_X := %s; c_Y := %s |}" % (
            VIEWS.index(v), 0 if c in ("matvec", "matmat") else 1, cols_lit(X), cols_lit(Y)))
    return "{| e_id := %d; e_mode := %d; e_e := %s;\n  e_calls := [%s] |}" % (cid, mode_of(t), gallina(t), ";\n   ".join(cs))


def known_match(fid):
    for k in common.load_known():
        if k.get("id") == fid:
            return k
    for k in PROPOSED_KNOWN:
        if k["id"] == fid:
            return k
    return None


def probes():
    """Fixed probe for the proposed known finding K3. Returns list of (id, observed?)."""
    import pylops
    out = []
    with warnings.catch_warnings():
        warnings.simplefilter("ignore")
        A = np.arange(6.0).reshape(2, 3)
        yy = np.arange(4.0) + 1j
        D = 1j * np.vstack([A, A])
        try:
            z = (1j * pylops.VStack([pylops.MatrixMult(A), pylops.MatrixMult(A)])).rmatvec(yy)
            out.append(("C03-K3", not np.allclose(z, D.conj().T @ yy)))
        except Exception:  # noqa
            out.append(("C03-K3", True))
    return out


def main(tier):
    R = common.Report(PID, tier)
    common.coq_build()
    ensure_compiled()
    thms, axioms = common.props_assumptions(PID)
    t0 = time.time()
    quick = tier == "quick"
    plan = ([("real", 40), ("complex", 64), ("colsroot", 10), ("colsnested", 8), ("kron", 16), ("realimag", 26), ("realimag_op", 6), ("realimag_nest", 10), ("natdtype", 10)] if quick else
            [("real", 540), ("complex", 1080), ("colsroot", 120), ("colsnested", 90), ("kron", 240), ("realimag", 400), ("realimag_op", 80), ("realimag_nest", 160), ("natdtype", 120)])
    cases, kfound = [], {}
    stats = {"trees": 0, "calls": 0, "by_kind": {}, "by_depth": {}, "ops": {}, "shapes_1xN_or_Nx1": 0, "complex_trees": 0,
             "complex_scalar_on_real_subtree": 0, "by_mode": {}}
    nontriv = set()
    cid = 0
    suppressed = [0]
    MAXV = 12

    def viol(what, rp, no_input=False):
        # at most MAXV replay files per run; the rest is only counted
        if len(R.violations) >= MAXV:
            suppressed[0] += 1
            return
        R.violation(what, rp, no_input=no_input)
    for kind, cnt in plan:
        for i in range(cnt):
            r = common.rng(PID, tier, kind, i)
            t = gen_tree(r, tier, kind)
            cplx = is_complex(t)
            X = inputs(r, t, cplx)
            res = run_tree(t, X)
            D = npd(t)
            cid += 1
            stats["trees"] += 1
            stats["by_kind"][kind] = stats["by_kind"].get(kind, 0) + 1
            stats["by_depth"][depth(t)] = stats["by_depth"].get(depth(t), 0) + 1
            stats["complex_trees"] += int(cplx)
            stats["shapes_1xN_or_Nx1"] += int(1 in D.shape)

            def walk(tt):
                stats["ops"][tt["op"]] = stats["ops"].get(tt["op"], 0) + 1
                if tt["op"] == "scale" and tt["alpha"][1] != 0 and not is_complex(tt["a"]):
                    stats["complex_scalar_on_real_subtree"] += 1
                for k in kids(tt):
                    walk(k)
            walk(t)
            good = []
            tree_bad = False
            for (v, c), Y in res.items():
                stats["calls"] += 1
                if isinstance(Y, Exception):
                    if len(R.violations) >= MAXV:
                        suppressed[0] += 1
                        tree_bad = True
                        break
                    # unexpected exception: shrink w.r.t. "same exception class"
                    et = type(Y)
                    pred = lambda tt, v=v, c=c, et=et: isinstance(run_tree(tt, {(v, c): inputs(common.rng(PID, "shr"), tt, is_complex(tt))[(v, c)]})[(v, c)], et)
                    try:
                        ts = shrink(t, v, c, None, pred)
                        Xs = inputs(common.rng(PID, "shr"), ts, is_complex(ts))[(v, c)]
                    except Exception:  # noqa
                        ts, Xs = t, X[(v, c)]
                    viol("%s of %s view of a valid expression raises %s: %s   tree=%s" % (c, v, et.__name__, Y, show(ts)),
                         {"kind": "exception", "tree": ts, "view": v, "call": c, "X": jz(Xs), "error": "%s: %s" % (et.__name__, Y)})
                    tree_bad = True
                    break
                if np.abs(Y).max(initial=0) > 0:
                    nontriv.add((cid, v, c))
                good.append((v, c, X[(v, c)], Y))
            if tree_bad:
                continue
            if good:
                stats["by_mode"][mode_of(t)] = stats["by_mode"].get(mode_of(t), 0) + 1
                cases.append((cid, t, good))
    # canary: a correct case with one output entry shifted by 1
    r = common.rng(PID, "canary")
    tc = gen_tree(r, "quick", "complex")
    Xc = inputs(r, tc, is_complex(tc))
    Yc = expected(npd(tc), "root", "matvec", Xc[("root", "matvec")]).astype(complex)
    Yc[0, 0] += 1
    CANARY = 999999
    cases.append((CANARY, tc, [("root", "matvec", Xc[("root", "matvec")], Yc)]))
    t_py = time.time() - t0

    # ---- Coq evaluation
    t1 = time.time()
    d = common.workdir(PID)
    per = max(1, (len(cases) + 31) // 32)
    names = []
    for k, sh in enumerate(common.shard(cases, per)):
        nm = "c03_%d" % k
        with open(os.path.join(d, nm + ".v"), "w") as f:
            f.write(HEADER)
            f.write("Definition cases : list caseE := [\n" + ";\n".join(case_lit(*c) for c in sh) + "].\n")
            f.write("Eval vm_compute in (failing e_id (checkE tol) cases).\n")
        names.append(nm)
    outs = common.run_coq_files(d, names)
    failing = {}
    for nm in names:
        failing.update(common.parse_failing(outs[nm]))
    t_coq = time.time() - t1
    if CANARY not in failing or 1 not in failing[CANARY] or 2 not in failing[CANARY]:
        raise RuntimeError("canary case was not flagged by the Coq comparison: pipeline broken")
    del failing[CANARY]

    bytree = {c[0]: c for c in cases}
    for fid, codes in sorted(failing.items()):
        _, t, good = bytree[fid]
        found = None
        for (v, c, Xi, Y) in good:
            if disagree(t, v, c, Xi) is not None:
                ts = shrink(t, v, c, Xi)
                found = (ts, v, c, Xi, disagree(ts, v, c, Xi))
                break
        if len(R.violations) >= MAXV:
            suppressed[0] += 1
            continue
        if found:
            ts, v, c, Xi, dd = found
            R.violation("%s of the %s view differs from the numpy evaluation of the same expression on its leaf matrices (Coq codes %s): tree=%s"
                        % (c, v, codes, show(ts)),
                        {"kind": "value", "tree": ts, "view": v, "call": c, "X": jz(Xi),
                         "observed": dd[0] if isinstance(dd[0], str) else jz(dd[0]), "expected": jz(dd[1]), "coq_codes": codes})
        else:
            R.violation("correspondence implementation ~ Expr.apmat/dense no longer checks (codes %s: 1=apmat, 2=dense, 3=wf) for tree=%s"
                        % (codes, show(t)), {"tree": t, "coq_codes": codes,
                                             "broken": "Corr.CheckC03.checkE (implementation agrees with numpy; the Gallina model or the emitter is suspect)"}, no_input=True)

    if suppressed[0]:
        R.notes.append("%d further failing trees not written as replays (cap %d per run)" % (suppressed[0], MAXV))
    for fid, seen in probes():
        if seen and known_match(fid):
            kfound[fid] = known_match(fid)["what"]
    for fid, what in sorted(kfound.items()):
        R.known_finding(fid, what)

    ncoq_calls = sum(len(c[2]) for c in cases) - 1
    R.cov.update(
        obligations=len(thms) + len(cases) - 1,
        discharged=len(thms) + max(0, len(cases) - 1 - len(R.violations) - suppressed[0]),
        checker_cmd="make -C coq + coqc Algebra/MatAlg.v Algebra/Expr.v Corr/CheckC03.v + coqc Props/C03.v (Print Assumptions) + coqc .work/C03/c03_*.v (vm_compute: implementation output vs Expr.apmat and vs mv (dense e))",
        theorems=thms, axioms_reported=axioms, evaluations=stats["calls"], distinct_nontrivial=len(nontriv),
        rule="one case per generated tree; 16 calls per tree = {root, .H, .T, .conj()} x {matvec, rmatvec, matmat(K=2), rmatmat(K=2)} on integer / Gaussian-integer inputs; non-trivial = distinct (tree, view, call) with non-zero implementation output; mode 0 = C-linear trees (Expr.wf) compared with apmat and dense, mode 1 = real trees with toreal()/toimag() nodes over complex subtrees on real inputs (Expr.rwf) compared with apmat and dense, mode 2 = root toreal/toimag with arbitrary forw/adj flags on complex inputs compared with apmat only (plus numpy in the search)",
        trees=stats["trees"], calls_compared_in_coq=ncoq_calls, trees_in_coq=len(cases) - 1,
        distribution=stats, modelled=["MatrixMult leaves", "+", "-", "@/*", "scalar*", "neg", "**p", ".H", ".T", ".conj()", "apply_columns", "VStack", "HStack", "BlockDiag", "Block", "Kronecker", "toreal/toimag"],
        oracle_only=[], not_covered=[],
        proposed_known_findings=PROPOSED_KNOWN, t_python=round(t_py, 1), t_coq=round(t_coq, 1))
    R.samples = [{"tree": show(c[1]), "shape": list(npd(c[1]).shape), "complex": is_complex(c[1]),
                  "x": [str(z) for z in c[2][0][2][:, 0][:4]], "Op_x": [str(z) for z in np.asarray(c[2][0][3])[:, 0][:4]]}
                 for c in cases[:-1][::max(1, len(cases) // 6)]]
    if axioms and not set(axioms) <= common.ALLOWED_AXIOMS:
        R.violation("Props/C03.v depends on unexpected axioms %s" % axioms, {"axioms": axioms}, no_input=True)
    return R.finish()
