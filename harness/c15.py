"""C15 — operators are pure: same input, same output, nothing else changes.
Model: an operator instance is a heap machine (State/Buffered.v) whose calls
return f_dir(input) in a FRESH array and never write caller-owned arrays, for
every history of calls and caller writes; f is multiplication by the
operator's matrix (extracted from a DIFFERENT instance by the shared operator
run).  Correspondence: random histories of matvec / rmatvec / matmat /
rmatmat / N-d @ on one instance, with the harness overwriting previously
returned arrays in between; every output is compared inside Coq with mv A x /
mv B y, and byte-level observations (inputs unchanged, earlier results
unchanged, aliasing) are made after every call."""
import json
import os
import time

import numpy as np

from . import common, l1, oprun, zoo

PID = "C15"
CANARY = 999999
TOL = 1e-9
STATEFUL = {"RegStack", "VStack", "HStack", "BlockDiag", "Block", "FFT", "FFT2D", "FFTND", "Shift", "Diagonal", "Convolve1D", "Convolve2D", "ConvolveND", "Restriction", "Regression",
            "LinearRegression", "NonStationaryConvolve1D", "NonStationaryConvolve2D", "NonStationaryFilters1D", "NonStationaryFilters2D",
            "Sliding1D", "Sliding2D", "Patch2D", "Identity", "CausalIntegration", "MDC", "Fredholm1", "Interp", "Smoothing1D", "DWT"}
INPLACE_DOCUMENTED = {"Identity"}          # result may be a view of the input (documented in-place option)


def to_model(W, v):
    if W.kind == "rlin":
        return l1.complexify(v) if W.domc else np.array(v, dtype=float)
    return np.array(v, dtype=complex if W.cplx else float)


def to_data(W, v):
    if W.kind == "rlin":
        return l1.complexify(v) if W.ranc else np.array(v, dtype=float)
    return np.array(v, dtype=complex if W.cplx else float)


def from_data(W, y):
    y = np.asarray(y)
    if W.kind == "rlin":
        return l1.realify(y) if W.ranc else np.asarray(y.real if np.iscomplexobj(y) else y, dtype=float)
    return y if W.cplx else np.asarray(y.real if np.iscomplexobj(y) else y, dtype=float)


def from_model(W, x):
    x = np.asarray(x)
    if W.kind == "rlin":
        return l1.realify(x) if W.domc else np.asarray(x.real if np.iscomplexobj(x) else x, dtype=float)
    return x if W.cplx else np.asarray(x.real if np.iscomplexobj(x) else x, dtype=float)


def internal_arrays(op, depth=0):
    out = []
    for k, v in list(getattr(op, "__dict__", {}).items()):
        if isinstance(v, np.ndarray):
            out.append((k, v))
        elif depth < 1 and hasattr(v, "__dict__") and k in ("Op", "ops", "Sop"):
            out += [(k + "." + a, b) for a, b in internal_arrays(v, depth + 1)]
    return out


def run_history(fam, params, r, length):
    """Returns dict with calls (for Coq), python-level problems, counters."""
    op = zoo.build(fam, params)
    W = l1.Wrapped(op)
    pool_f = [l1.ivector(r, W.N, W.cplx) for _ in range(3)]
    pool_a = [l1.ivector(r, W.M, W.cplx) for _ in range(3)]
    kinds = ["matvec", "rmatvec", "matmat", "rmatmat"]
    nd_f = len(op.dims) > 1 and W.kind != "rlin"
    nd_a = len(op.dimsd) > 1 and W.kind != "rlin"
    if nd_f:
        kinds.append("dot_nd")
    if nd_a:
        kinds.append("rdot_nd")
    has_apply = hasattr(op, "apply") and hasattr(op, "taxis")
    if has_apply:
        kinds.append("apply")
    if W.kind == "real":
        # the very first products on this instance are made with single-precision inputs (results not judged: many kernels
        # reject or round them); whatever they do, LATER double-precision results must still be those of a fresh instance
        for f32, vec in ((op.matvec, pool_f[0]), (op.rmatvec, pool_a[0])):
            try:
                f32(np.asarray(vec, dtype=np.float32))
            except Exception:
                pass
    elif W.kind == "complex":
        # complex-linear operator: the first products see REAL-typed (float64) vectors; later complex results must be unaffected
        for f64, vec in ((op.matvec, pool_f[0]), (op.rmatvec, pool_a[0])):
            try:
                f64(np.asarray(np.real(vec), dtype=np.float64))
            except Exception:
                pass
    held = []          # [array, saved_copy, label]
    problems = []
    calls = []         # (dir, xw, yw)
    first = {}
    stats = {"calls": 0, "overwrites": 0, "repeats": 0, "strided": 0}
    for step in range(length):
        kind = kinds[step] if step < len(kinds) else r.choice(kinds)     # every kind of product occurs at least once
        if kind == "apply":
            # Regression/LinearRegression.apply(t, x): evaluate at other locations; must not change later products
            t2 = np.asarray(op.taxis, dtype=float) + 0.5 * (1 + r.randrange(3))
            xm = to_model(W, pool_f[r.randrange(3)]).copy()
            xm_saved = xm.copy()
            t_saved = np.array(op.taxis, copy=True)
            try:
                ya = np.asarray(op.apply(t2, xm))
            except Exception as e:
                problems.append({"kind": "raised", "step": step, "call": kind, "error": "%s: %s" % (type(e).__name__, str(e)[:200])})
                break
            stats["calls"] += 1
            order = len(xm) - 1
            ref = np.vander(t2, order + 1, increasing=True) @ xm
            if ya.shape != ref.shape or np.abs(ya - ref).max(initial=0) > 1e-9 * (1 + np.abs(ref).max(initial=0)):
                problems.append({"kind": "apply(t, x) is not the polynomial evaluated at t", "step": step, "call": kind})
            if not np.array_equal(xm, xm_saved) or not np.array_equal(np.asarray(op.taxis), t_saved):
                problems.append({"kind": "input modified", "step": step, "call": kind})
            continue
        fwd = kind in ("matvec", "matmat", "dot_nd")
        pool = pool_f if fwd else pool_a
        idx = [r.randrange(3)] if kind in ("matvec", "rmatvec", "dot_nd", "rdot_nd") else [r.randrange(3), r.randrange(3)]
        conv = to_model if fwd else to_data
        cols = [conv(W, pool[i]) for i in idx]
        if len(cols) == 1:
            x = cols[0].copy()
            if step >= len(kinds) and r.random() < 0.3:     # later calls: sometimes a strided (non-contiguous) view of the same values
                buf = np.zeros(2 * len(x), dtype=x.dtype)
                buf[::2] = x
                x = buf[::2]
                stats["strided"] += 1
            if kind == "dot_nd":
                x = np.ascontiguousarray(x).reshape(op.dims)
            if kind == "rdot_nd":
                x = np.ascontiguousarray(x).reshape(op.dimsd)
        else:
            x = np.stack(cols, axis=1)
        x_saved = x.copy()
        try:
            if kind == "matvec":
                y = op.matvec(x)
            elif kind == "rmatvec":
                y = op.rmatvec(x)
            elif kind == "matmat":
                y = op.matmat(x)
            elif kind == "rmatmat":
                y = op.rmatmat(x)
            elif kind == "dot_nd":
                y = op @ x
            else:
                y = op.H @ x
        except Exception as e:
            problems.append({"kind": "raised", "step": step, "call": kind, "error": "%s: %s" % (type(e).__name__, str(e)[:200])})
            break
        stats["calls"] += 1
        y = np.asarray(y)
        # (a) input bytes unchanged
        aliased_in = np.shares_memory(y, x)
        if x.tobytes() != x_saved.tobytes() or not np.array_equal(x, x_saved, equal_nan=True):
            problems.append({"kind": "input modified", "step": step, "call": kind})
        # (d) aliasing
        inplace_ok = fam in INPLACE_DOCUMENTED and params.get("inplace", True)
        if aliased_in and not inplace_ok:
            problems.append({"kind": "result aliases input", "step": step, "call": kind})
        for (a, s, lab) in held:
            if np.shares_memory(y, a):
                problems.append({"kind": "result aliases an earlier result", "step": step, "call": kind, "earlier": lab})
        for name, arr in internal_arrays(op):
            if np.shares_memory(y, arr) and fam not in INPLACE_DOCUMENTED:
                problems.append({"kind": "result aliases operator state '%s'" % name, "step": step, "call": kind})
        # (c) earlier results unchanged by this call
        for (a, s, lab) in held:
            if not np.array_equal(a, s, equal_nan=True):
                problems.append({"kind": "earlier result changed by a later call", "step": step, "call": kind, "earlier": lab})
                s[...] = a
        # (b) same (kind of product, input) -> same output as its first evaluation
        yflat = y.reshape(y.shape[0], -1) if kind in ("matmat", "rmatmat") else y.reshape(-1, 1)
        back = from_data if fwd else from_model
        for c, i in enumerate(idx):
            yw = back(W, yflat[:, c])
            key = (fwd, i)
            if key in first:
                stats["repeats"] += 1
                if yw.shape != first[key].shape or np.abs(yw - first[key]).max(initial=0) > 1e-12 * (1 + np.abs(first[key]).max(initial=0)):
                    problems.append({"kind": "same input, different output than its first evaluation", "step": step, "call": kind, "input": i,
                                     "diff": float(np.abs(yw - first[key]).max()) if yw.shape == first[key].shape else "shape"})
            else:
                first[key] = yw.copy()
            calls.append((fwd, np.array(pool[i]), yw.copy()))
        if not aliased_in:
            held.append([y, y.copy(), "call %d (%s)" % (step, kind)])
        # caller overwrites a previously returned array
        if held and r.random() < 0.4:
            h = r.choice(held)
            if h[0].flags.writeable:
                h[0][...] = 12345.0
                h[1][...] = 12345.0
                stats["overwrites"] += 1
    return {"W": W, "calls": calls, "problems": problems, "stats": stats, "pools": (pool_f, pool_a), "length": length}


def _case_lit(cid, rec, calls):
    c = rec["cplx"]
    pre = "c" if c else "r"
    fw = [(x, y) for (f, x, y) in calls if f]
    ad = [(x, y) for (f, x, y) in calls if not f]
    pairs = lambda L: "[" + ";\n   ".join("(%s, %s)" % (common.vlit(x, c), common.vlit(y, c)) for x, y in L) + "]"
    return ("{| %s_id := %d%%nat; %s_n := %d%%nat; %s_m := %d%%nat;\n  %s_A := %s;\n  %s_B := %s;\n  %s_fw := %s;\n  %s_ad := %s |}"
            % (pre, cid, pre, rec["N"], pre, rec["M"], pre, common.mlit(rec["A"], c), pre, common.mlit(rec["B"], c), pre, pairs(fw), pre, pairs(ad)))


def coq_eval(items):
    """items: list of (cid, oprun-rec, calls)."""
    d = common.workdir(PID)
    A = np.array([[1.0, 2.0], [0.0, 1.0]])
    x = np.array([1.0, 1.0])
    items = items + [(CANARY, {"cplx": False, "N": 2, "M": 2, "A": A, "B": A.T}, [(True, x, x), (False, x, x)])]
    items.sort(key=lambda t: -(t[1]["N"] * t[1]["M"]))
    nsh = max(1, min(3 * common.NPROC, len(items) // 4 + 1))
    names = []
    tq = common.qlit(__import__("fractions").Fraction(TOL).limit_denominator(10 ** 15))
    for k in range(nsh):
        sh = items[k::nsh]
        if not sh:
            continue
        nm = "hist_%d" % k
        names.append(nm)
        with open(os.path.join(d, nm + ".v"), "w") as f:
            f.write("From Coq Require Import QArith Qcanon List.\nFrom PV Require Import Check GaussQc.\nImport ListNotations.\nOpen Scope Qc_scope.\n")
            f.write("Definition tol : Qc := %s.\n" % tq)
            f.write("Definition rcases : list L1caseR := [\n%s].\n" % ";\n".join(_case_lit(i, r, c) for i, r, c in sh if not r["cplx"]))
            f.write("Definition ccases : list L1caseC := [\n%s].\n" % ";\n".join(_case_lit(i, r, c) for i, r, c in sh if r["cplx"]))
            f.write("Eval vm_compute in (failing r_id (checkR tol) rcases ++ failing c_id (checkC tol) ccases).\n")
    outs = common.run_coq_files(d, names)
    res = {}
    for n in names:
        res.update(common.parse_failing(outs[n]))
    c = [t for t in res.pop(CANARY, []) if t in (1, 2)]
    if sorted(c) != [1, 2]:
        raise RuntimeError("canary history not reported: pipeline broken")
    return {k: [t for t in v if t in (1, 2)] for k, v in res.items() if any(t in (1, 2) for t in v)}


def replay(rp):
    r = common.random.Random(rp["rng_seed"])
    out = run_history(rp["family"], rp["params"], r, rp["length"])
    bad = [p for p in out["problems"] if p["kind"] == rp["problem"]["kind"]]
    if rp["problem"]["kind"] == "output differs from the operator's matrix applied to the input":
        res = oprun.run(rp.get("tier", "quick"))
        rec = [x for x in res["recs"] if x["family"] == rp["family"] and x["params"] == rp["params"]][0]
        for (f, x, y) in out["calls"]:
            ref = (rec["A"] if f else rec["B"]) @ x
            if np.abs(ref - y).max(initial=0) > 1e-9 * (1 + np.abs(ref).max(initial=0)):
                bad.append(1)
    print("problems:", out["problems"][:3])
    print("reproduced" if bad else "not reproduced")
    return 1 if bad else 0


def main(tier):
    R = common.Report(PID, tier)
    common.coq_build()
    thms, axioms = common.props_assumptions(PID)
    res = oprun.run(tier)
    recs = res["recs"]
    known = [k for k in common.load_known() if k.get("property") == PID]
    length = 10 if tier == "quick" else 20
    nhist = 1 if tier == "quick" else 4
    t0 = time.time()
    items, meta = [], {}
    tot = {"calls": 0, "overwrites": 0, "repeats": 0, "strided": 0}
    nontriv = set()
    nconf = 0
    for rec in recs:
        if "error" in rec:
            continue
        fam, params = rec["family"], rec["params"]
        stateful = fam in STATEFUL
        degenerate = (fam == "Flip" and params["dims"] == [1]) or (fam == "Transpose" and params["axes"] == [0, 1])     # known findings: always exercised
        # quick tier: a full history for every stateful family and a third of the others, a SHORT one (matvec, rmatvec and
        # two more calls: aliasing with the input, input bytes, repeatability) for all the remaining configurations
        short = not stateful and not degenerate and tier == "quick" and rec["id"] % 3 != 0
        hlen = 4 if short else length
        nconf += 1
        for hno in range(nhist if stateful or tier == "thorough" else 1):
            seed_str = "%d/c15/%s/%s/%d" % (common.seed(), fam, json.dumps(params, sort_keys=True), hno)
            r = common.random.Random(seed_str)
            try:
                out = run_history(fam, params, r, hlen)
            except Exception as e:
                R.violation("history on %s %s raised %s: %s" % (fam, params, type(e).__name__, str(e)[:200]),
                            {"family": fam, "params": params, "rng_seed": seed_str, "length": hlen, "problem": {"kind": "raised"}})
                continue
            for k in tot:
                tot[k] += out["stats"][k]
            for p in out["problems"]:
                kid = None
                if p["kind"] == "result aliases input":
                    if fam == "Flip" and params["dims"][params.get("axis", -1)] == 1:
                        kid = "C15-flip-len1"
                    elif fam == "Transpose" and list(params["axes"]) == sorted(params["axes"]):
                        kid = "C15-transpose-identity"
                if kid and any(k["id"] == kid for k in known):
                    R.known_finding(kid, [k for k in known if k["id"] == kid][0]["what"])
                    continue
                R.violation("%s %s: %s at call %s of the history (%s)" % (fam, params, p["kind"], p.get("step"), p.get("call")),
                            {"family": fam, "params": params, "rng_seed": seed_str, "length": hlen, "problem": p})
            cid = len(items)
            if stateful or tier == "thorough" or rec["id"] % 6 == 0:
                items.append((cid, rec, out["calls"]))
                meta[cid] = (fam, params, seed_str, hlen)
            for (f, x, y) in out["calls"]:
                if np.abs(y).max(initial=0) > 0:
                    nontriv.add((rec["id"], f, x.tobytes()))
    t1 = time.time()
    codes = coq_eval(list(items))
    t2 = time.time()
    for cid, c in codes.items():
        fam, params, seed_str, hl = meta[cid]
        R.violation("%s %s: output along a call history differs from the operator's matrix applied to the input (%s)" % (fam, params, "forward" if 1 in c else "adjoint"),
                    {"family": fam, "params": params, "rng_seed": seed_str, "length": hl, "tier": tier,
                     "problem": {"kind": "output differs from the operator's matrix applied to the input"}})
    R.cov.update(obligations=len(thms) + len(items), discharged=len(thms) + len(items) - len(codes),
                 checker_cmd="make -C coq + coqc Props/C15.v (Print Assumptions) + coqc .work/C15/hist_*.v (vm_compute)",
                 theorems=thms, axioms_reported=axioms, evaluations=tot["calls"], distinct_nontrivial=len(nontriv),
                 rule="one random history (length %d) of matvec/rmatvec/matmat/rmatmat/N-d @ per configuration (all stateful families, a third of the others; quick tier: a length-4 history for every remaining configuration), inputs from pools of 3 integer vectors per direction (so repeats occur), 30%% strided views, caller overwrites an earlier result with probability 0.4 per step; after every call: input bytes, all earlier results, aliasing with input / earlier results / operator arrays, equality with the first evaluation of the same input; outputs compared in Coq with the matrix extracted from another instance; non-trivial = distinct (configuration, direction, input) with non-zero output" % length,
                 configurations=nconf, histories_in_coq=len(items), **tot, t_python=round(t1 - t0, 1), t_coq=round(t2 - t1, 1))
    R.samples = [{"family": meta[i][0], "params": meta[i][1], "calls": len(items[i][2])} for i in list(meta)[::max(1, len(meta) // 6)]]
    if axioms and not set(axioms) <= common.ALLOWED_AXIOMS:
        R.violation("Props/C15.v depends on unexpected axioms %s" % axioms, {"axioms": axioms}, no_input=True)
    return R.finish()
