"""C09 — Krylov solvers converge to the documented minimiser.
Model: Solvers/CG.v, Solvers/CGLS.v (Gallina transcriptions of
cls_basic.py CG / CGLS); theorems in Props/C09.v (residual invariants,
CGLS simulates CG on the normal equations, refutation witnesses for the
setup quirk).  Correspondence: per-iteration iterates of pylops cg / cgls vs
the model over Qc / Gaussian Qc inside Coq, plus an exact per-system
certificate that the model reaches the minimiser within n steps.  LSQR is
compared with scipy.sparse.linalg.lsqr(iter_lim=k) (oracle) per iteration."""
from . import c09_common as cc
from . import c09_extra

PID = "C09"
PROPOSED_KNOWN = cc.PROPOSED_KNOWN


def replay(rp):
    if rp.get("extra"):
        return c09_extra.replay(rp)
    return cc.replay(rp, cc.KINDS[PID])


def main(tier):
    return cc.report(PID, tier, extra=c09_extra.extra)
