"""C13 — ISTA/FISTA descend and stop at an L1-optimal point; the threshold
functions are proximal maps.

Decision: theorems of Props/C13.v (soft_is_prox, hard_is_prox_l0,
soft_c_is_prox, ista_descent from ANY x, fixed point <-> KKT, KKT => global
minimiser, equal objective at two KKT points, psd_sound) about the Gallina
models of Solvers/Thresh.v / ISTA.v, tied to /repo by a behavioural
correspondence evaluated in Coq (Corr/CheckC13.v):
 (a) _softthreshold/_hardthreshold (real + complex with Pythagorean moduli),
     percentile variants through their threshold, zero pattern of
     _halfthreshold: implementation output vs model, and brute-force check
     that no grid point z beats the implementation's output in the prox
     objective;
 (b) ISTA/FISTA iterates (callback) of the real implementation vs the model
     over Qc; exact objective along the implementation's iterates is
     non-increasing; exact PSD certificate of I - alpha A^H A; KKT residuals at
     convergence; FISTA objective = ISTA objective.
The L1/2 prox claim of the half threshold is NOT decided in Coq
(half_partial); a float brute force (oracle level) is run instead."""
import math
import os
import subprocess
import time
from fractions import Fraction

import numpy as np

from . import common

PID = "C13"
OWN_V = ["Solvers/OrdLemmas", "Solvers/Thresh", "Solvers/ISTA", "Solvers/PSD", "Solvers/ISTAComplex", "Corr/CheckC13"]

# Proposed entry for known_findings.json (not yet integrated): genuine defect of the unchanged tree.
PROPOSED_KNOWN = [{
    "id": "C13-half-scale", "property": "C13", "function": "_halfthreshold",
    "what": "_halfthreshold(x, thresh) is the proximal map of (thresh/2)|x|^(1/2), not of thresh|x|^(1/2) "
            "(convention of _softthreshold/_hardthreshold and of ISTA's thresh = eps*alpha/2): "
            "e.g. _halfthreshold(2.0, 2.0) = 1.6054 but argmin_z (z-2)^2/2 + 2|z|^(1/2) = 0; "
            "ISTA(threshkind='half') therefore minimises ||y-Op x||^2 + (eps/2)||x||_(1/2)^(1/2)",
}]

HEADER = ("From Coq Require Import QArith Qcanon ZArith List.\n"
          "From PV Require Import Dict QcInst GaussQc Check CheckC13.\nImport ListNotations.\n")

TRIPLES = [(3, 4, 5), (5, 12, 13), (8, 15, 17), (7, 24, 25), (20, 21, 29), (1, 0, 1), (0, 1, 1), (6, 8, 10)]
TGRID = [0.0, 0.25, 0.5, 1.0, 1.5, 2.0, 3.0, 4.5, 8.0, 0.375, 12.5]


def _pylops():
    import pylops
    from pylops.optimization import cls_sparsity, sparsity
    return pylops, cls_sparsity, sparsity


# ------------------------------------------------------------------ build own .v
def ensure_built():
    th = os.path.join(common.COQDIR, "theories")
    newest_dep = 0.0
    for name in OWN_V:
        v = os.path.join(th, name + ".v")
        vo = os.path.join(th, name + ".vo")
        if (not os.path.exists(vo)) or os.path.getmtime(vo) < os.path.getmtime(v) or os.path.getmtime(vo) < newest_dep:
            p = subprocess.run(["timeout", "600", "coqc", "-Q", "theories", "PV", "-w",
                                "-notation-overridden,-ambiguous-paths,-deprecated-hint-without-locality",
                                "theories/%s.v" % name], cwd=common.COQDIR,
                               stdout=subprocess.PIPE, stderr=subprocess.STDOUT, text=True)
            if p.returncode != 0:
                raise SystemExit("coqc %s failed:\n%s" % (name, p.stdout[-3000:]))
        newest_dep = max(newest_dep, os.path.getmtime(vo))


# ------------------------------------------------------------------ exact reference (search / replay)
def fr(x):
    return Fraction(float(x))


def soft_fr(u, t):
    a = abs(u) - t
    if a <= 0:
        return Fraction(0)
    return a if u > 0 else -a


def obj_fr(A, y, eps, x, S=None):
    """||y - A x||^2 + eps ||S^T x||_1 exactly (real; S = None -> identity)."""
    A = [[fr(a) for a in r] for r in A]
    x = [fr(a) for a in x]
    r = [fr(b) - sum(a * c for a, c in zip(row, x)) for row, b in zip(A, y)]
    c = x if S is None else [sum(fr(S[i][j]) * x[i] for i in range(len(x))) for j in range(len(x))]
    return sum(a * a for a in r) + fr(eps) * sum(abs(a) for a in c)


def obj_c(A, y, eps, x):
    r = np.asarray(y) - np.asarray(A) @ np.asarray(x)
    return float(np.sum(np.abs(r) ** 2) + eps * np.sum(np.abs(x)))


def step_fr(A, y, alpha, eps, x):
    A = [[fr(a) for a in r] for r in A]
    x = [fr(a) for a in x]
    r = [fr(b) - sum(a * c for a, c in zip(row, x)) for row, b in zip(A, y)]
    g = [sum(A[i][j] * r[i] for i in range(len(A))) for j in range(len(x))]
    t = fr(eps) * fr(alpha) / 2
    return [soft_fr(x[j] + fr(alpha) * g[j], t) for j in range(len(x))]


def betas(k):
    out, t = [], 1.0
    for _ in range(k):
        told = t
        t = (1.0 + math.sqrt(1.0 + 4.0 * t * t)) / 2.0
        out.append((told - 1.0) / t)
    return out


# ------------------------------------------------------------------ threshold cases
def gen_thresh(tier):
    _, cs, _ = _pylops()
    r = common.rng(PID, "thresh")
    realc, cplxc, halfc = [], [], []
    cid = [0]

    def nid():
        cid[0] += 1
        return cid[0]
    base = [k / 4.0 for k in range(-26, 27)]
    zgrid = [k / 4.0 for k in range(-40, 41)]
    nrand = 2 if tier == "quick" else 8
    # Pythagorean inputs
    pts = []
    for (a, b, c) in TRIPLES:
        for sa in (1, -1):
            for sb in (1, -1):
                for (p, q_) in ((a, b), (b, a)):
                    for s in (0.25, 0.5, 1.0, 1.5):
                        pts.append((sa * p * s, sb * q_ * s, c * s))
    pts.append((0.0, 0.0, 0.0))
    pts = sorted(set(pts))
    cgrid0 = sorted(set((sa * a * s / 4.0, sb * b * s / 4.0, c * s / 4.0) for (a, b, c) in TRIPLES for sa in (1, -1)
                        for sb in (1, -1) for s in range(0, 9)))
    for t in TGRID:
        for kind, f in ((0, cs._softthreshold), (1, cs._hardthreshold)):
            ins = list(base) + [r.randint(-400, 400) / 32.0 for _ in range(8)]
            x = np.array(ins, dtype=float)
            realc.append({"id": nid(), "kind": kind, "t": t, "in": x, "out": np.asarray(f(x.copy(), t)),
                          "grid": sorted(set(zgrid) | set(ins)), "via": "direct"})
            for _ in range(nrand):
                sub = r.sample(pts, 14)
                x = np.array([complex(p[0], p[1]) for p in sub])
                ray = []
                for p in sub:
                    if p[2] > 0:
                        for k in range(0, int(4 * p[2]) + 5, 2 if tier == "quick" else 1):
                            kk = Fraction(k, 4)
                            ray.append((kk * fr(p[0]) / fr(p[2]), kk * fr(p[1]) / fr(p[2]), kk))
                cplxc.append({"id": nid(), "kind": kind, "t": t, "in": sub, "out": np.asarray(f(x.copy(), t)),
                              "grid": r.sample(cgrid0, 60) + ray})
    # percentile variants through their threshold
    for perc in (10, 30, 50, 75, 90, 100, 0):
        for _ in range(nrand):
            n = r.randint(3, 12)
            x = np.array([float(r.randint(-9, 9)) for _ in range(n)])
            th = float(np.percentile(np.abs(x), perc))
            realc.append({"id": nid(), "kind": 0, "t": th, "in": x, "out": np.asarray(cs._softthreshold_percentile(x.copy(), perc)),
                          "grid": sorted(set(zgrid)), "via": "soft-percentile %g" % perc})
            realc.append({"id": nid(), "kind": 1, "t": 0.5 * th ** 2, "in": x,
                          "out": np.asarray(cs._hardthreshold_percentile(x.copy(), perc)), "grid": sorted(set(zgrid) | set(x.tolist())),
                          "via": "hard-percentile %g" % perc})
            th2 = (4.0 / 54 ** (1.0 / 3.0) * th) ** 1.5
            halfc.append({"id": nid(), "t": th2, "c": (54 ** (1.0 / 3.0) / 4.0) * th2 ** (2.0 / 3.0), "in": x,
                          "out": np.asarray(cs._halfthreshold_percentile(x.copy(), perc)), "via": "half-percentile %g" % perc})
    for t in TGRID[1:]:
        x = np.array(base + [r.randint(-400, 400) / 32.0 for _ in range(8)])
        halfc.append({"id": nid(), "t": t, "c": (54 ** (1.0 / 3.0) / 4.0) * t ** (2.0 / 3.0), "in": x,
                      "out": np.asarray(cs._halfthreshold(x.copy(), t)), "via": "direct"})
    return realc, cplxc, halfc


def half_bruteforce(halfc):
    """Oracle-level (float) check of the L1/2 claim, NOT a Coq decision:
    returns (#checked, failures against the implemented convention
    argmin (z-u)^2 + t|z|^(1/2), failures against the documented convention
    argmin (z-u)^2/2 + t|z|^(1/2))."""
    own, doc, n = [], [], 0
    for c in halfc:
        if c["via"] != "direct":
            continue
        t = c["t"]
        for u, h in zip(c["in"], c["out"]):
            if abs(abs(u) - c["c"]) < 1e-6 or u == 0:
                continue
            n += 1
            z = np.linspace(0.0, abs(u), 20001) * np.sign(u)
            z = np.concatenate([z, [h]])
            f1 = (z - u) ** 2 + t * np.sqrt(np.abs(z))
            f2 = 0.5 * (z - u) ** 2 + t * np.sqrt(np.abs(z))
            if f1[-1] > f1.min() + 1e-7 * (1 + abs(f1.min())):
                own.append((float(u), float(t), float(h), float(z[int(np.argmin(f1))])))
            if f2[-1] > f2.min() + 1e-7 * (1 + abs(f2.min())):
                doc.append((float(u), float(t), float(h), float(z[int(np.argmin(f2))])))
    return n, own, doc


# ------------------------------------------------------------------ ISTA / FISTA problems
def dyadic_below(v, bits=8):
    """largest dyadic with <= bits significant bits that is <= v(1-1e-9)"""
    v = v * (1 - 1e-9)
    e = math.floor(math.log2(v))
    k = bits - 1 - e
    return math.floor(v * 2.0 ** k) / 2.0 ** k


ROT = [(3.0, 4.0, 5.0), (5.0, 12.0, 13.0), (8.0, 15.0, 17.0)]


def make_S(r, n):
    """non-symmetric orthonormal matrix: 2x2 rotations (Pythagorean cos/sin) and +-1 on the diagonal blocks,
    rows cyclically shifted, columns signed (entries are floats; orthonormal to ~1e-16)"""
    for _ in range(20):
        B = np.zeros((n, n))
        k = 0
        while k < n:
            if k + 1 < n and r.random() < 0.7:
                a, b, c = r.choice(ROT)
                B[k, k], B[k, k + 1], B[k + 1, k], B[k + 1, k + 1] = a / c, -b / c, b / c, a / c
                k += 2
            else:
                B[k, k] = r.choice([1.0, -1.0])
                k += 1
        S = np.roll(B, r.randint(0, n - 1), axis=0) * np.array([r.choice([1.0, -1.0]) for _ in range(n)])[None, :]
        if not np.allclose(S, S.T):
            return S
    return S


def gen_problems(tier):
    r = common.rng(PID, "problems")
    nprob = 36 if tier == "quick" else 400
    nextra = 6 if tier == "quick" else 40
    probs = []
    epsg = [0.125, 0.5, 1.0, 2.5, 4.0, 0.03125]

    def mk(cplx, m, n, R, x0k, ak, fam):
        lim = 2 if cplx else 3
        while True:
            A = np.array([[r.randint(-lim, lim) for _ in range(n)] for _ in range(m)], dtype=float)
            if cplx:
                A = A + 1j * np.array([[r.randint(-lim, lim) for _ in range(n)] for _ in range(m)], dtype=float)
            if np.abs(A).max() > 0:
                break

        def rv(k, lo):
            v = np.array([[r.randint(-lo, lo) for _ in range(R)] for _ in range(k)], dtype=float)
            if cplx:
                v = v + 1j * np.array([[r.randint(-lo, lo) for _ in range(R)] for _ in range(k)], dtype=float)
            return v
        y = rv(m, 6)
        x0 = rv(n, 4) if x0k == "random" else (np.zeros((n, R), dtype=complex if cplx else float) if x0k == "zeros" else None)
        lam = float(np.linalg.eigvalsh(A.conj().T @ A).max())
        if ak == "default" and n < 3:
            ak = "max"      # LinearOperator.eigs(neigs=1) raises for 1 column (real) / <= 2 columns (complex): observation, outside C13
        alpha = None if ak == "default" else dyadic_below(1.0 / lam) * (0.5 if ak == "half" else 1.0)
        pr = {"id": len(probs), "family": fam, "cplx": cplx, "m": m, "n": n, "R": R, "A": A, "y": y, "x0k": x0k, "x0": x0,
              "eps": r.choice(epsg), "alpha_kind": ak, "alpha": alpha, "lam": lam, "api": r.choice(["function", "class"]),
              "S": None, "pre": None, "rv": rv}
        probs.append(pr)
        return pr

    for i in range(nprob):
        cplx = (i % 5 == 4)
        mk(cplx, r.randint(1, 5), r.randint(1, 5), r.choice([1, 1, 1, 2, 3]) if not cplx else r.choice([1, 1, 2]),
           r.choice(["none", "zeros", "random", "random"]), r.choice(["max", "max", "half", "default"]), "base")
    # default step size on rectangular operators (complex under-/over-determined, real under-determined)
    for i in range(nextra):
        cplx = (i % 4 != 3)
        m, n = (3, r.randint(4, 5)) if i % 2 == 0 else (r.randint(4, 5), 3)
        mk(cplx, m, n, 1, r.choice(["none", "random"]), "default", "default-alpha")
    # sparsifying transform SOp (analysis problem), single and multiple right-hand sides
    for i in range(nextra):
        n = r.randint(2, 5)
        pr = mk(False, r.randint(2, 5), n, [1, 2, 3, 2][i % 4], r.choice(["none", "zeros", "random"]), r.choice(["max", "half"]), "sop")
        pr["S"] = make_S(r, n)
        pr["api"] = r.choice(["function", "class"])
    # solver OBJECT reused: a first solve (other y, other eps) precedes the observed one on the same instance
    hist = [("default", "default"), ("default", "max"), ("max", "max"), ("max", "default")]
    for i in range(nextra):
        cplx = (i % 4 == 3)
        a1, a2 = hist[i % 4]
        pr = mk(cplx, r.randint(3, 5), r.randint(3, 5), 1, r.choice(["none", "random"]), a2, "reuse")
        e1 = r.choice([e for e in epsg if e != pr["eps"]])
        pr["pre"] = {"y": pr["rv"](pr["m"], 6), "eps": e1, "alpha": None if a1 == "default" else dyadic_below(1.0 / pr["lam"]),
                     "niter": r.choice([1, 3, 7]), "kinds": [a1, a2]}
        pr["api"] = "class"
    # user-supplied decay array (perc=None): threshold at iteration i is decay[i]*eps*alpha/2
    dk = [("const", 0.5), ("first2", 2.0), ("dec", None), ("const", 2.0), ("first2", 0.25), ("dec", None)]
    for i in range(nextra):
        kind, c = dk[i % len(dk)]
        pr = mk(kind == "const" and i % 2 == 1, r.randint(2, 5), r.randint(2, 5), [1, 1, 2][i % 3] if not (kind == "const" and i % 2 == 1) else 1,
                r.choice(["none", "zeros", "random"]), r.choice(["max", "half"]), "decay")
        pr["decay"] = {"kind": kind, "c": c}
        pr["eps_user"] = pr["eps"]
        if kind == "const":
            pr["eps"] = pr["eps_user"] * c      # the run must be plain ISTA/FISTA for eps*decay (descent, KKT for eps*decay)
    for pr in probs:
        del pr["rv"]
    return probs


def decay_array(p, niter):
    d = p.get("decay")
    if d is None:
        return None
    if d["kind"] == "const":
        return d["c"] * np.ones(niter)
    if d["kind"] == "first2":
        a = np.ones(niter)
        a[0] = d["c"]
        return a
    return np.array([2.0 ** -(i // 4) for i in range(niter)])     # decreasing, dyadic


def decay_nonconst(p):
    return p.get("decay") is not None and p["decay"]["kind"] != "const"


def run_solver(p, mode, niter, tol, want_its=True, cb_override=None):
    """Runs the REAL implementation; returns (iterates list, final x, alpha used, niter done)."""
    pylops, cs, sp = _pylops()
    A, y = p["A"], p["y"]
    Op = pylops.MatrixMult(A.copy(), dtype="complex128" if p["cplx"] else "float64")
    SOp = None if p.get("S") is None else pylops.MatrixMult(np.array(p["S"], dtype=float).copy())
    yy = y.copy() if p["R"] > 1 else y[:, 0].copy()
    x0 = None if p["x0"] is None else (p["x0"].copy() if p["R"] > 1 else p["x0"][:, 0].copy())
    its = []
    cb = (lambda x: its.append(np.array(x, copy=True))) if want_its else None
    if cb_override is not None:
        cb = cb_override
    cls = cs.ISTA if mode == 0 else cs.FISTA
    pre = p.get("pre")
    epsu = p.get("eps_user", p["eps"])
    dec = decay_array(p, niter)
    if p["api"] == "class" or p["alpha"] is None or pre is not None:
        s = cls(Op)
        if pre is not None:      # history: the same solver object has been used before
            y1 = pre["y"] if p["R"] > 1 else pre["y"][:, 0]
            s.solve(y1.copy(), niter=pre["niter"], eps=pre["eps"], alpha=pre["alpha"], tol=0.0)
        if cb is not None:
            s.callback = cb
        x, nit, _ = s.solve(yy, x0=x0, niter=niter, SOp=SOp, eps=epsu, alpha=p["alpha"], tol=tol, decay=dec)
        alpha = float(s.alpha)
    else:
        f = sp.ista if mode == 0 else sp.fista
        x, nit, _ = f(Op, yy, x0=x0, niter=niter, SOp=SOp, eps=epsu, alpha=p["alpha"], tol=tol, callback=cb, decay=dec)
        alpha = float(p["alpha"])
    return its, np.asarray(x), alpha, nit


def col(v, j, R):
    v = np.asarray(v)
    return v[:, j] if v.ndim == 2 else v


def maxdiff(a, b, pad=False):
    a, b = list(a), list(b)
    if pad and a and b:      # a run that stopped because its update became exactly zero stays at its last iterate
        while len(a) < len(b):
            a.append(a[-1])
        while len(b) < len(a):
            b.append(b[-1])
    if len(a) != len(b):
        return float("inf")
    d = 0.0
    for u, v in zip(a, b):
        u, v = np.asarray(u), np.asarray(v)
        if u.shape != v.shape or not (np.all(np.isfinite(u)) and np.all(np.isfinite(v))):
            return float("inf")
        d = max(d, float(np.abs(u - v).max(initial=0) / (1 + np.abs(v).max(initial=0))))
    return d


def column_problem(p, j, alpha):
    return dict(p, R=1, y=p["y"][:, j:j + 1], x0=None if p["x0"] is None else p["x0"][:, j:j + 1], alpha=alpha, api="class",
                pre=None if p.get("pre") is None else dict(p["pre"], y=p["pre"]["y"][:, j:j + 1]))


def _same(a, b):
    a, b = np.asarray(a), np.asarray(b)
    return a.shape == b.shape and a.dtype == b.dtype and a.tobytes() == b.tobytes()


def held_runs(p, niter):
    """The caller keeps the array OBJECTS: (1) a callback that stores x itself (no copy), (2) manual
    setup/step driving holding every array passed in and every array returned.  Findings: a held array
    changed bitwise later on, a passed-in array was modified by step, x0 / y were modified, or the
    objective along the HELD iterates increases."""
    pylops, cs, _ = _pylops()
    out = []
    R = p["R"]
    x0m = p["x0"] if p["x0"] is not None else np.zeros((p["n"], R), dtype=complex if p["cplx"] else float)
    for mode in (0, 1):
        name = "ISTA" if mode == 0 else "FISTA"
        # (1) callback storing the object itself
        hist, snaps = [], []

        def cb(x):
            hist.append(x)
            snaps.append(np.array(x, copy=True))
        run_solver(dict(p, api="class"), mode, niter, 0.0, cb_override=cb)
        bad = [k for k in range(len(hist)) if not _same(hist[k], snaps[k])]
        if bad:
            out.append({"mode": mode, "how": "%s: iterate %d handed to the callback (stored without copy) was modified by a later iteration" % (name, bad[0] + 1)})
        # (2) manual driving
        A, y = p["A"], p["y"]
        Op = pylops.MatrixMult(A.copy(), dtype="complex128" if p["cplx"] else "float64")
        SOp = None if p.get("S") is None else pylops.MatrixMult(np.array(p["S"], dtype=float).copy())
        yy = y.copy() if R > 1 else y[:, 0].copy()
        x0 = None if p["x0"] is None else (p["x0"].copy() if R > 1 else p["x0"][:, 0].copy())
        ykeep, x0keep = yy.copy(), None if x0 is None else x0.copy()
        s = (cs.ISTA if mode == 0 else cs.FISTA)(Op)
        x = s.setup(yy, x0=x0, niter=niter, SOp=SOp, eps=p.get("eps_user", p["eps"]), alpha=p["alpha"], tol=0.0, decay=decay_array(p, niter))
        z = x.copy()
        held, heldc = [], []
        msg = None
        for it in range(niter):
            xin, xs = x, x.copy()
            if mode == 0:
                xnew, _ = s.step(xin)
            else:
                zin, zs = z, z.copy()
                xnew, z, _ = s.step(xin, zin)
                if msg is None and not _same(zin, zs):
                    msg = "%s.step modified the auxiliary array z passed to it (iteration %d)" % (name, it)
            if msg is None and not _same(xin, xs):
                msg = "%s.step modified the array x passed to it (iteration %d): max change %.3g" % (name, it, float(np.abs(xin - xs).max()))
            held.append(xnew)
            heldc.append(xnew.copy())
            x = xnew
        if msg is None:
            badh = [k for k in range(len(held)) if not _same(held[k], heldc[k])]
            if badh:
                msg = "%s: iterate %d returned by step was modified by a later step" % (name, badh[0] + 1)
        if msg is None and not _same(yy, ykeep):
            msg = "%s modified the data array y" % name
        if msg is None and x0 is not None and not _same(x0, x0keep):
            msg = "%s modified the caller's x0" % name
        if mode == 0 and not decay_nonconst(p) and all(np.all(np.isfinite(v)) for v in held):
            for j in range(R):
                res = search_descent(p, j, x0m[:, j], [col(v, j, R) for v in held])
                if res is not None:
                    msg = (msg + "; " if msg else "") + "objective along the HELD iterates increases at iteration %d: %.12g -> %.12g" % res
                    break
        if msg:
            out.append({"mode": mode, "how": msg})
    return out


def run_problems(probs, tier):
    """Python side of (b): returns list of per-(problem, mode, column) records."""
    import traceback
    niter = 30
    cap = 4000 if tier == "quick" else 6000
    recs = []
    stats = {"conv": 0, "notconv": 0, "columns_compared": 0, "reuse_vs_fresh": 0}
    for p in probs:
        R = p["R"]
        x0m = p["x0"] if p["x0"] is not None else np.zeros((p["n"], R), dtype=complex if p["cplx"] else float)
        fin = {}
        try:
            for mode in (0, 1):
                its, x, alpha, nit = run_solver(p, mode, niter, 0.0)
                p["alpha_used"] = alpha
                nfin = next((k for k, v in enumerate(its) if not np.all(np.isfinite(v))), len(its))
                for j in range(R):
                    recs.append({"kind": "run", "p": p, "mode": mode, "col": j, "x0": x0m[:, j], "alpha": alpha,
                                 "its": [col(v, j, R) for v in its[:nfin]], "nit": nit, "nonfinite": nfin < len(its)})
                if R > 1 and nfin == len(its):
                    # multiple right-hand sides = column-by-column solves
                    for j in range(R):
                        itj, _, _, _ = run_solver(column_problem(p, j, p["alpha"]), mode, niter, 0.0)
                        stats["columns_compared"] += 1
                        dd = maxdiff([col(v, j, R) for v in its], itj, pad=True)
                        if dd > 1e-9:
                            recs.append({"kind": "columns", "p": p, "mode": mode, "col": j, "diff": dd})
                if p.get("pre") is not None and p["pre"]["kinds"] != ["max", "default"] and nfin == len(its):
                    # a re-used solver object = a fresh one
                    itf, _, af, _ = run_solver(dict(p, pre=None, api="class"), mode, niter, 0.0)
                    stats["reuse_vs_fresh"] += 1
                    dd = maxdiff(its, itf)
                    if dd > 1e-9:
                        recs.append({"kind": "reuse", "p": p, "mode": mode, "col": 0, "diff": dd, "alpha_reused": alpha, "alpha_fresh": af})
                if p.get("S") is not None or decay_nonconst(p):
                    continue
                # converged run (ISTA: default-like stopping rule tol=1e-10; FISTA: same cap, tol=0)
                _, xf, _, nf = run_solver(p, mode, cap, 1e-10 if mode == 0 else 0.0, want_its=False)
                fin[mode] = (xf, nf)
            if p.get("pre") is None:
                stats["held_runs"] = stats.get("held_runs", 0) + 1
                for f in held_runs(p, niter):
                    recs.append(dict(f, kind="alias", p=p, col=0))
        except Exception as e:      # the solver raised on a valid problem
            recs.append({"kind": "raised", "p": p, "col": 0, "err": "%s: %s" % (type(e).__name__, e),
                         "trace": traceback.format_exc()[-1500:]})
            continue
        if p.get("S") is not None or decay_nonconst(p):
            continue
        conv = fin[0][1] < cap
        if not (np.all(np.isfinite(fin[0][0])) and np.all(np.isfinite(fin[1][0]))):
            recs.append({"kind": "diverged", "p": p, "col": 0, "which": 0 if not np.all(np.isfinite(fin[0][0])) else 1})
            conv = False
        stats["conv" if conv else "notconv"] += 1
        if conv:
            for j in range(R):
                recs.append({"kind": "kkt", "p": p, "col": j, "xi": col(fin[0][0], j, R), "xf": col(fin[1][0], j, R),
                             "nit": fin[0][1]})
    return recs, stats


# ------------------------------------------------------------------ emitters
q = common.qlit


def frlit(x):
    return q(x) if not isinstance(x, Fraction) else q(x)


def triple(p):
    return "(%s, %s, %s)" % (q(p[0]), q(p[1]), q(p[2]))


def emit_thrR(c):
    return ("{| tr_id := %d%%nat; tr_kind := %d%%nat; tr_t := %s; tr_in := %s; tr_out := %s; tr_grid := %s |}"
            % (c["id"], c["kind"], q(c["t"]), common.vlit(c["in"]), common.vlit(c["out"]), common.vlit(c["grid"])))


def emit_thrC(c):
    return ("{| tc_id := %d%%nat; tc_kind := %d%%nat; tc_t := %s; tc_in := [%s]; tc_out := %s; tc_grid := [%s] |}"
            % (c["id"], c["kind"], q(c["t"]), "; ".join(triple(p) for p in c["in"]), common.vlit(c["out"], True),
               "; ".join(triple(p) for p in c["grid"])))


def emit_thrH(c):
    return ("{| th_id := %d%%nat; th_c := %s; th_in := %s; th_out := %s |}"
            % (c["id"], q(c["c"]), common.vlit(c["in"]), common.vlit(c["out"])))


def alphac_of(rec_p, alpha):
    return alpha if rec_p["alpha"] is not None else alpha * (1 - 2.0 ** -20)


def zs_of(rc):
    """points at which the implementation takes its steps: x_k (ISTA) or the
    extrapolated z_k recomputed from the implementation's x_k, x_{k-1} (FISTA)"""
    its = [rc["x0"]] + list(rc["its"])
    if rc["mode"] == 0:
        return its[:-1]
    b = betas(len(rc["its"]))
    zs = [its[0]]
    for k in range(1, len(its) - 1):
        zs.append(its[k] + b[k - 1] * (its[k] - its[k - 1]))
    return zs


def emit_istaR(cid, rc):
    p = rc["p"]
    j = rc["col"]
    pairs = ["(%s, %s)" % (common.vlit(z), common.vlit(xn)) for z, xn in zip(zs_of(rc), rc["its"])]
    return ("{| ir_id := %d%%nat; ir_n := %d%%nat; ir_mode := %d%%nat; ir_A := %s; ir_y := %s; ir_alpha := %s; ir_alphac := %s; "
            "ir_eps := %s; ir_x0 := %s; ir_betas := %s; ir_traj := %d%%nat; ir_pairs := [%s]; ir_its := [%s]; ir_S := %s; ir_decay := %s |}"
            % (cid, p["n"], rc["mode"], common.mlit(p["A"]), common.vlit(p["y"][:, j]), q(rc["alpha"]),
               q(alphac_of(p, rc["alpha"])), q(p["eps"]), common.vlit(rc["x0"]),
               common.vlit(betas(len(rc["its"]))) if rc["mode"] == 1 else "[]",
               0 if (p.get("S") is not None or decay_nonconst(p)) else ((8 if rc["mode"] == 0 else 5) if p["alpha"] is not None else 3),
               ";\n ".join(pairs), ";\n ".join(common.vlit(v) for v in rc["its"]),
               "[]" if p.get("S") is None else common.mlit(p["S"]),
               common.vlit(decay_array(p, len(rc["its"]))) if decay_nonconst(p) else "[]"))


def emit_kktR(cid, rc):
    p = rc["p"]
    j = rc["col"]
    return ("{| kr_id := %d%%nat; kr_n := %d%%nat; kr_A := %s; kr_y := %s; kr_eps := %s; kr_xi := %s; kr_xf := %s |}"
            % (cid, p["n"], common.mlit(p["A"]), common.vlit(p["y"][:, j]), q(p["eps"]), common.vlit(rc["xi"]),
               common.vlit(rc["xf"])))


def emit_istaC(cid, rc, kk):
    """complex record for the PROVED model ISTAComplex.step_c / run_c / obj_c: the moduli of the vector the
    implementation thresholds (numpy abs of z + alpha A^H (y - A z)) and of its iterates are supplied as exact
    rationals and checked in Coq (m >= 0, |m^2 - (re^2+im^2)| <= 1e-12 (1 + re^2+im^2))."""
    p = rc["p"]
    j = rc["col"]
    A, y = p["A"], p["y"][:, j]
    its = [rc["x0"]] + list(rc["its"])
    pairs = []
    for z, xn in zip(zs_of(rc), its[1:]):
        u = z + rc["alpha"] * (A.conj().T @ (y - A @ z))
        pairs.append("(%s, %s, %s)" % (common.vlit(z, True), common.vlit(rc.get("mu_override", np.abs(u))), common.vlit(xn, True)))
    traj = 0 if rc["mode"] != 0 else min(3, len(rc["its"]))
    return ("{| ic_id := %d%%nat; ic_n := %d%%nat; ic_mode := %d%%nat; ic_A := %s; ic_y := %s; ic_alpha := %s; ic_alphac := %s; "
            "ic_eps := %s; ic_pairs := [%s]; ic_its := [%s]; ic_traj := %d%%nat; ic_xi := %s; ic_xf := %s |}"
            % (cid, p["n"], rc["mode"], common.mlit(p["A"], True), common.vlit(p["y"][:, j], True), q(rc["alpha"]),
               q(alphac_of(p, rc["alpha"])), q(p["eps"]), ";\n ".join(pairs),
               ";\n ".join("(%s, %s)" % (common.vlit(v, True), common.vlit(np.abs(v))) for v in its), traj,
               common.vlit(kk["xi"], True) if kk is not None else "[]",
               common.vlit(kk["xf"], True) if kk is not None else "[]"))


def write_files(d, prefix, typ, idf, chk, items, per):
    names = []
    for k, sh in enumerate(common.shard(items, per)):
        name = "%s_%d" % (prefix, k)
        with open(os.path.join(d, name + ".v"), "w") as f:
            f.write(HEADER)
            f.write("Definition cases : list %s := [\n%s].\n" % (typ, ";\n".join(sh)))
            f.write("Eval vm_compute in (failing %s %s cases).\n" % (idf, chk))
        names.append(name)
    return names


# ------------------------------------------------------------------ search (pure implementation)
def search_descent(p, j, x0, its):
    """first k with F(x_{k+1}) > F(x_k)(1+1e-12) on the implementation's own iterates (exact for real)."""
    if decay_nonconst(p):
        return None
    seq = [x0] + list(its)
    if p["cplx"]:
        F = [obj_c(p["A"], p["y"][:, j], p["eps"], v) for v in seq]
    else:
        F = [obj_fr(p["A"], p["y"][:, j], p["eps"], v, p.get("S")) for v in seq]
    tol = 1e-12 if p["cplx"] else Fraction(1, 10 ** 12)
    for k in range(len(F) - 1):
        if F[k + 1] > F[k] + tol * (1 + abs(F[k])):
            return k, float(F[k]), float(F[k + 1])
    return None


def search_kkt(p, j, x, eps):
    A = p["A"]
    if not np.all(np.isfinite(x)):
        return 0, "non-finite result %s" % x
    g = A.conj().T @ (p["y"][:, j] - A @ x)
    tk = 1e-6 * (1 + eps)
    for i in range(len(x)):
        if x[i] == 0:
            if abs(g[i]) > eps / 2 + tk:
                return i, "zero entry with |Op^H r|_i = %.9g > eps/2 = %.9g" % (abs(g[i]), eps / 2)
        else:
            if abs(g[i] - eps / 2 * x[i] / abs(x[i])) > tk:
                return i, "non-zero entry x_i=%s with Op^H r_i = %s != (eps/2) x_i/|x_i| = %s" % (x[i], g[i], eps / 2 * x[i] / abs(x[i]))
    return None


def prob_dict(p, j):
    pre = p.get("pre")
    return {"cplx": p["cplx"], "A": [[str(a) for a in r] for r in p["A"]], "y": [str(a) for a in p["y"][:, j]],
            "y_full": [[str(a) for a in r] for r in p["y"]], "R": p["R"], "col": j,
            "x0": None if p["x0"] is None else [[str(a) for a in r] for r in p["x0"]], "eps": p["eps"],
            "alpha": p["alpha"], "api": p["api"], "m": p["m"], "n": p["n"], "lam_max": p["lam"], "family": p.get("family"),
            "eps_passed_to_solver": p.get("eps_user", p["eps"]), "decay": p.get("decay"),
            "SOp": None if p.get("S") is None else [[float(a) for a in r] for r in p["S"]],
            "previous_solve_on_same_object": None if pre is None else
            {"y": [[str(a) for a in r] for r in pre["y"]], "eps": pre["eps"], "alpha": pre["alpha"], "niter": pre["niter"], "kinds": pre["kinds"]}}


def prob_from(rp):
    cv = complex if rp["cplx"] else (lambda s: float(complex(s).real))
    A = np.array([[cv(a) for a in r] for r in rp["A"]])
    y = np.array([[cv(a) for a in r] for r in rp["y_full"]])
    x0 = None if rp["x0"] is None else np.array([[cv(a) for a in r] for r in rp["x0"]])
    pre = rp.get("previous_solve_on_same_object")
    if pre is not None:
        pre = dict(pre, y=np.array([[cv(a) for a in r] for r in pre["y"]]))
    return {"cplx": rp["cplx"], "A": A, "y": y, "R": rp["R"], "x0": x0, "eps": rp["eps"], "alpha": rp["alpha"],
            "api": rp["api"], "m": rp["m"], "n": rp["n"], "lam": rp["lam_max"], "family": rp.get("family"),
            "eps_user": rp.get("eps_passed_to_solver", rp["eps"]), "decay": rp.get("decay"),
            "S": None if rp.get("SOp") is None else np.array(rp["SOp"]), "pre": pre}


def replay(rp):
    k = rp["kind"]
    bad = False
    if k == "prox":
        _, cs, _ = _pylops()
        f = {"soft": cs._softthreshold, "hard": cs._hardthreshold}[rp["fn"]]
        u = complex(rp["u"])
        z = complex(rp["z"])
        t = rp["t"]
        x = np.array([u]) if rp["cplx"] else np.array([u.real])
        s = f(x, t)[0]
        pen = (lambda w: abs(w)) if rp["fn"] == "soft" else (lambda w: 0.0 if w == 0 else 1.0)
        qs = 0.5 * abs(s - u) ** 2 + t * pen(s)
        qz = 0.5 * abs(z - u) ** 2 + t * pen(z)
        print("thresh(%s, %s) = %s  objective %.12g ; z = %s objective %.12g ; expected output %s" % (u, t, s, qs, z, qz, rp.get("expected")))
        bad = qs > qz + 1e-9 * (1 + abs(qz))
        if "expected" in rp and not bad:
            bad = abs(s - complex(rp["expected"])) > 1e-9 * (1 + abs(s))
    elif k in ("descent", "kkt", "step", "fista-objective"):
        p = prob_from(rp["problem"])
        j = rp["problem"]["col"]
        mode = rp.get("mode", 0)
        if k == "descent":
            its, _, alpha, _ = run_solver(p, 0, rp["niter"], 0.0)
            x0m = p["x0"] if p["x0"] is not None else np.zeros((p["n"], p["R"]), dtype=complex if p["cplx"] else float)
            res = search_descent(p, j, x0m[:, j], [col(v, j, p["R"]) for v in its])
            print("alpha =", alpha, " 1/lambda_max =", 1.0 / p["lam"], " first increase:", res)
            bad = res is not None
        elif k == "kkt":
            _, x, _, nit = run_solver(p, mode, rp["cap"], 1e-10 if mode == 0 else 0.0, want_its=False)
            res = search_kkt(p, j, col(x, j, p["R"]), p["eps"])
            print("iterations", nit, "x =", col(x, j, p["R"]), "violated:", res)
            bad = res is not None
        elif k == "fista-objective":
            _, xi, _, _ = run_solver(p, 0, rp["cap"], 1e-10, want_its=False)
            _, xf, _, _ = run_solver(p, 1, rp["cap"], 0.0, want_its=False)
            Fi = obj_c(p["A"], p["y"][:, j], p["eps"], col(xi, j, p["R"]))
            Ff = obj_c(p["A"], p["y"][:, j], p["eps"], col(xf, j, p["R"]))
            print("F(ista) =", Fi, " F(fista) =", Ff)
            bad = abs(Fi - Ff) > 1e-6 * (1 + abs(Fi))
        else:
            its, _, alpha, _ = run_solver(p, mode, rp["niter"], 0.0)
            x0m = p["x0"] if p["x0"] is not None else np.zeros((p["n"], p["R"]), dtype=complex if p["cplx"] else float)
            res = search_step(p, j, mode, x0m[:, j], [col(v, j, p["R"]) for v in its], alpha)
            print("first iterate that is not soft(z + alpha Op^H(y - Op z), eps*alpha/2):", res)
            bad = res is not None
    elif k == "alias":
        p = prob_from(rp["problem"])
        fs = held_runs(p, rp["niter"])
        for f in fs:
            print(f["how"])
        bad = bool(fs)
    elif k == "columns":
        p = prob_from(rp["problem"])
        j, mode = rp["problem"]["col"], rp["mode"]
        its, _, _, _ = run_solver(p, mode, rp["niter"], 0.0)
        itj, _, _, _ = run_solver(column_problem(p, j, p["alpha"]), mode, rp["niter"], 0.0)
        dd = maxdiff([col(v, j, p["R"]) for v in its], itj, pad=True)
        print("column %d of the %d-right-hand-side solve vs the single solve: max relative difference %g" % (j, p["R"], dd))
        bad = dd > 1e-9
    elif k == "reuse":
        p = prob_from(rp["problem"])
        its, _, a1, _ = run_solver(p, rp["mode"], rp["niter"], 0.0)
        itf, _, a2, _ = run_solver(dict(p, pre=None, api="class"), rp["mode"], rp["niter"], 0.0)
        dd = maxdiff(its, itf)
        print("re-used solver object (alpha=%r) vs fresh object (alpha=%r): max relative difference %g" % (a1, a2, dd))
        bad = dd > 1e-9
    elif k == "raises":
        p = prob_from(rp["problem"])
        try:
            run_solver(p, 0, 3, 0.0)
            run_solver(p, 1, 3, 0.0)
        except Exception as e:
            print("raised", type(e).__name__, e)
            bad = True
    elif k == "alpha-default":
        p = prob_from(rp["problem"])
        _, _, alpha, _ = run_solver(p, 0, 1, 0.0, want_its=False)
        print("default alpha =", alpha, " 1/lambda_max =", 1.0 / p["lam"])
        bad = not (abs(alpha * p["lam"] - 1.0) <= 1e-6)
    elif k == "half":
        _, cs, _ = _pylops()
        n, own, doc = half_bruteforce([{"via": "direct", "t": rp["t"], "c": rp["c"], "in": np.array([rp["u"]]),
                                        "out": cs._halfthreshold(np.array([rp["u"]]), rp["t"])}])
        print("half threshold own-convention failures:", own)
        bad = bool(own)
    else:
        print("nothing to re-run for kind", k)
        bad = True
    print("reproduced" if bad else "not reproduced")
    return 1 if bad else 0


def step_ref(p, j, alpha, z, k=0):
    """reference step in float (complex) or exact (real)"""
    A, y, eps = p["A"], p["y"][:, j], p["eps"]
    if decay_nonconst(p):
        eps = eps * float(decay_array(p, k + 1)[k])
    if p.get("S") is not None:
        S = np.asarray(p["S"], dtype=float)
        v = S.T @ (z + alpha * (A.T @ (y - A @ z)))
        return S @ (np.maximum(np.abs(v) - eps * alpha / 2, 0) * np.sign(v))
    if not p["cplx"]:
        return np.array([float(v) for v in step_fr(A, y, alpha, eps, z)])
    u = z + alpha * (A.conj().T @ (y - A @ z))
    m = np.abs(u)
    k = np.maximum(m - eps * alpha / 2, 0)
    return np.where(m > 0, k * u / np.where(m > 0, m, 1), 0)


def search_step(p, j, mode, x0, its, alpha):
    seq = [x0] + list(its)
    b = betas(len(its))
    for k in range(len(its)):
        if not np.all(np.isfinite(seq[k + 1])):
            return k, [str(v) for v in seq[k + 1]], ["(finite value expected)"]
        z = seq[k] if (mode == 0 or k == 0) else seq[k] + b[k - 1] * (seq[k] - seq[k - 1])
        ref = step_ref(p, j, alpha, z, k)
        if np.abs(ref - seq[k + 1]).max(initial=0) > 1e-9 * (1 + np.abs(ref).max(initial=0)):
            return k, [str(v) for v in seq[k + 1]], [str(v) for v in ref]
    return None


# ------------------------------------------------------------------ main
def main(tier):
    R = common.Report(PID, tier)
    common.coq_build()
    ensure_built()
    thms, axioms = common.props_assumptions(PID)
    t0 = time.time()
    realc, cplxc, halfc = gen_thresh(tier)
    probs = gen_problems(tier)
    recs, stats = run_problems(probs, tier)
    t_py = time.time() - t0

    d = common.workdir(PID)
    # ---- canaries (deliberately wrong; must come back)
    can = {}
    c0 = dict(realc[2]); c0["id"] = 9001; c0["out"] = c0["out"] + 0.01
    can["thrR"] = 9001
    c1 = dict(cplxc[2]); c1["id"] = 9002; c1["out"] = c1["out"] * 1.01 + 0.01
    can["thrC"] = 9002
    c2 = dict(halfc[-1]); c2["id"] = 9003; c2["out"] = np.where(c2["out"] == 0, 1.0, 0.0)
    can["thrH"] = 9003
    runsR = [rc for rc in recs if rc["kind"] == "run" and not rc["p"]["cplx"]]
    runsC = [rc for rc in recs if rc["kind"] == "run" and rc["p"]["cplx"]]
    kktR = [rc for rc in recs if rc["kind"] == "kkt" and not rc["p"]["cplx"]]
    kktC = {(rc["p"]["id"], rc["col"]): rc for rc in recs if rc["kind"] == "kkt" and rc["p"]["cplx"]}
    idmap = {}
    itemsR, itemsK, itemsC = [], [], []
    for rc in runsR:
        cid = len(idmap) + 1
        idmap[cid] = rc
        itemsR.append(emit_istaR(cid, rc))
    for rc in kktR:
        cid = len(idmap) + 1
        idmap[cid] = rc
        itemsK.append(emit_kktR(cid, rc))
    for rc in runsC:
        cid = len(idmap) + 1
        idmap[cid] = rc
        kk = kktC.get((rc["p"]["id"], rc["col"])) if rc["mode"] == 0 else None
        rc["kk"] = kk
        itemsC.append(emit_istaC(cid, rc, kk))
    # canaries for runs: fixed problems with deliberately wrong iterates / result (independent of the implementation)
    pc = {"id": -1, "cplx": False, "m": 2, "n": 2, "R": 1, "A": np.array([[1.0, 2.0], [0.0, 1.0]]), "y": np.array([[1.0], [1.0]]),
          "x0": None, "x0k": "none", "eps": 1.0, "alpha": 0.125, "lam": 5.83, "S": None, "pre": None}
    cr = {"kind": "run", "p": pc, "mode": 0, "col": 0, "x0": np.zeros(2), "alpha": 0.125, "its": [np.array([5.0, 5.0]), np.array([5.0, 5.0])]}
    itemsR.append(emit_istaR(9004, cr)); can["istaR"] = 9004
    itemsK.append(emit_kktR(9005, {"p": pc, "col": 0, "xi": np.array([7.0, 7.0]), "xf": np.array([7.0, 7.0])})); can["kktR"] = 9005
    pcc = dict(pc, cplx=True, A=np.array([[1.0 + 1.0j, 2.0], [0.0, 1.0j]]), y=np.array([[1.0 + 0j], [1.0j]]))
    cc = {"kind": "run", "p": pcc, "mode": 0, "col": 0, "x0": np.zeros(2, dtype=complex), "alpha": 0.125,
          "its": [np.array([5.0 + 5.0j, 5.0]), np.array([5.0 + 5.0j, 5.0])]}
    itemsC.append(emit_istaC(9006, cc, None)); can["istaC"] = 9006
    itemsC.append(emit_istaC(9007, dict(cc, mu_override=np.array([1.0, 1.0])), None))      # wrong supplied moduli: code 9 must come back

    names = {}
    names["thrR"] = write_files(d, "thrR", "ThrR", "tr_id", "checkThrR", [emit_thrR(c) for c in realc + [c0]], 12)
    names["thrC"] = write_files(d, "thrC", "ThrC", "tc_id", "checkThrC", [emit_thrC(c) for c in cplxc + [c1]], 8)
    names["thrH"] = write_files(d, "thrH", "ThrH", "th_id", "checkThrH", [emit_thrH(c) for c in halfc + [c2]], 100)
    names["istaR"] = write_files(d, "istaR", "IstaR", "ir_id", "checkIstaR", itemsR, max(4, len(itemsR) // 14 + 1))
    names["kktR"] = write_files(d, "kktR", "KktR", "kr_id", "checkKktR", itemsK, max(4, len(itemsK) // 4 + 1))
    names["istaC"] = write_files(d, "istaC", "IstaC", "ic_id", "checkIstaC", itemsC, max(2, len(itemsC) // 14 + 1))
    t1 = time.time()
    allnames = [n for v in names.values() for n in v]
    outs = common.run_coq_files(d, allnames)
    t_coq = time.time() - t1
    fail = {}
    for grp, ns in names.items():
        fail[grp] = {}
        for nme in ns:
            fail[grp].update(common.parse_failing(outs[nme]))
    for grp, cid in can.items():
        if cid not in fail[grp]:
            raise SystemExit("C13: canary %s/%d was not reported as failing: the pipeline is broken" % (grp, cid))
        del fail[grp][cid]
    if 9 not in fail["istaC"].get(9007, []):
        raise SystemExit("C13: canary istaC/9007 (wrong supplied moduli) was not rejected by the modulus check")
    del fail["istaC"][9007]

    nviol0 = 0
    # ---- thresholds
    byid = {c["id"]: c for c in realc + cplxc + halfc}
    for grp in ("thrR", "thrC"):
        for cid, codes in fail[grp].items():
            c = byid[cid]
            fn = "soft" if c["kind"] == 0 else "hard"
            w = search_prox(c, grp == "thrC")
            if w is not None:
                R.violation("_%sthreshold is not the proximal map: u=%s thresh=%s output %s is beaten by z=%s (%s)"
                            % (fn, w["u"], w["t"], w["s"], w["z"], c.get("via", "direct")), w)
            else:
                k = first_diff(c, grp == "thrC")
                R.violation("_%sthreshold output differs from model Thresh.%s (codes %s, %s): %s" % (fn, fn, codes, c.get("via", "direct"), k),
                            dict(k, kind="prox", broken="Corr.CheckC13.check%s codes %s" % ("ThrC" if grp == "thrC" else "ThrR", codes)),
                            no_input=k.get("z") is None)
    for cid, codes in fail["thrH"].items():
        c = byid[cid]
        R.violation("_halfthreshold zero pattern differs from |x| <= (54^(1/3)/4) thresh^(2/3) (%s, thresh=%s)" % (c["via"], c["t"]),
                    {"kind": "half", "t": c["t"], "c": c["c"], "u": float(c["in"][0]), "in": [float(a) for a in c["in"]],
                     "out": [float(a) for a in c["out"]], "broken": "Corr.CheckC13.checkThrH"}, no_input=True)
    nh, own, doc = half_bruteforce(halfc)
    for (u, t, h, zb) in own[:3]:
        R.violation("_halfthreshold(%g, %g) = %g is not argmin (z-u)^2 + t|z|^(1/2) (float brute force: %g)" % (u, t, h, zb),
                    {"kind": "half", "u": u, "t": t, "c": (54 ** (1.0 / 3.0) / 4.0) * t ** (2.0 / 3.0), "h": h, "z": zb})
    if doc:
        u, t, h, zb = doc[0]
        R.known_finding(PROPOSED_KNOWN[0]["id"], PROPOSED_KNOWN[0]["what"] + " [this run: %d/%d grid inputs, first u=%g thresh=%g -> %g, argmin %g]"
                        % (len(doc), nh, u, t, h, zb))

    # ---- runs
    def handle_run(cid, codes, rc):
        p, j = rc["p"], rc["col"]
        pd = prob_dict(p, j)
        name = "ISTA" if rc.get("mode", 0) == 0 else "FISTA"
        if budget[0] <= 0:
            return          # enough concrete evidence; do not spend the time budget on more searches
        budget[0] -= 1
        if 3 in codes and p["alpha"] is None:
            codes = [c for c in codes if c != 3]      # reported below as "default step size is not 1/lambda_max"
        if 9 in codes:
            R.violation("a supplied modulus (numpy abs of the implementation's complex values) fails m^2 = re^2+im^2 within 1e-12 in Coq (problem %d)" % p["id"],
                        {"kind": "generator", "problem": pd, "codes": codes, "broken": "Corr.CheckC13.modsok"}, no_input=True)
        if 3 in codes or 4 in codes:
            R.violation("generator problem: step-size premise / shape check failed in Coq for problem %d (codes %s)" % (p["id"], codes),
                        {"kind": "generator", "problem": pd, "alpha_used": rc["alpha"], "codes": codes}, no_input=True)
        if 2 in codes:
            res = search_descent(p, j, rc["x0"], rc["its"])
            if res:
                R.violation("%s increases the objective at iteration %d: F=%.15g -> %.15g (alpha=%.6g, 1/lambda_max=%.6g, eps=%g, m=%d n=%d %s x0=%s)"
                            % (name, res[0], res[1], res[2], rc["alpha"], 1 / p["lam"], p["eps"], p["m"], p["n"],
                               "complex" if p["cplx"] else "real", p["x0k"]),
                            {"kind": "descent", "problem": pd, "niter": len(rc["its"]), "k": res[0], "F_k": res[1], "F_k1": res[2]})
            else:
                R.violation("objective monotonicity check failed in Coq but not in the exact python re-evaluation (problem %d)" % p["id"],
                            {"kind": "descent", "problem": pd, "niter": len(rc["its"]), "broken": "Corr.CheckC13 code 2"}, no_input=True)
        if 1 in codes or 8 in codes:
            res = search_step(p, j, rc["mode"], rc["x0"], rc["its"], rc["alpha"])
            dres = search_descent(p, j, rc["x0"], rc["its"]) if rc["mode"] == 0 else None
            if dres and 2 not in codes:
                R.violation("%s increases the objective at iteration %d: F=%.15g -> %.15g" % (name, dres[0], dres[1], dres[2]),
                            {"kind": "descent", "problem": pd, "niter": len(rc["its"]), "k": dres[0]})
            elif res:
                R.violation("%s iterate %d is not %s (model %s): got %s expected %s; %s eps=%g alpha=%g x0=%s R=%d"
                            % (name, res[0] + 1, "SOp soft(SOp^H (z + alpha Op^H(y - Op z)), eps*alpha/2)" if p.get("S") is not None
                               else "soft(z + alpha Op^H(y - Op z), eps*alpha/2)",
                               "CheckC13.stepS" if p.get("S") is not None else ("ISTA.step" if rc["mode"] == 0 else "ISTA.fista_step"), res[1], res[2],
                               ("complex" if p["cplx"] else "real") + ("" if p.get("decay") is None else " decay=%s (threshold decay[i]*eps*alpha/2, eps passed %g)"
                                                                       % (p["decay"], p.get("eps_user", p["eps"]))), p["eps"], rc["alpha"], p["x0k"], p["R"]),
                            {"kind": "step", "problem": pd, "mode": rc["mode"], "niter": len(rc["its"]), "k": res[0], "got": res[1], "expected": res[2]})
            else:
                R.violation("%s iterates differ from the Coq model but the python reference step agrees (problem %d)" % (name, p["id"]),
                            {"kind": "step", "problem": pd, "mode": rc["mode"], "niter": len(rc["its"]),
                             "broken": "Corr.CheckC13 codes %s (1 = one-step, 8 = run from x0)" % codes}, no_input=True)
        kk = rc if rc["kind"] == "kkt" else rc.get("kk")
        for code, which, mode in ((5, "xi", 0), (6, "xf", 1)):
            if code in codes and kk is not None:
                res = search_kkt(p, j, kk[which], p["eps"])
                what = "%s result after convergence violates the optimality conditions: %s (eps=%g, %s, m=%d n=%d)" % (
                    "ISTA" if mode == 0 else "FISTA", res[1] if res else "residual above tolerance in Coq only", p["eps"],
                    "complex" if p["cplx"] else "real", p["m"], p["n"])
                R.violation(what, {"kind": "kkt", "problem": pd, "mode": mode, "cap": 4000 if tier == "quick" else 6000,
                                   "x": [str(v) for v in kk[which]], "entry": res[0] if res else None}, no_input=res is None)
        if 7 in codes and kk is not None:
            Fi = obj_c(p["A"], p["y"][:, j], p["eps"], kk["xi"])
            Ff = obj_c(p["A"], p["y"][:, j], p["eps"], kk["xf"])
            R.violation("FISTA does not reach the ISTA objective value: F(ista)=%.12g F(fista)=%.12g" % (Fi, Ff),
                        {"kind": "fista-objective", "problem": pd, "cap": 4000 if tier == "quick" else 6000, "F_ista": Fi, "F_fista": Ff})

    budget = [0]
    for grp in ("kktR", "istaR", "istaC"):      # property-level (KKT) failures first
        budget[0] = 6
        for cid, codes in sorted(fail[grp].items()):
            handle_run(cid, codes, idmap[cid])

    nal = 0
    for rc in recs:
        if rc["kind"] == "alias":
            nal += 1
            if nal <= 5:
                p = rc["p"]
                R.violation("%s (%s, m=%d n=%d R=%d eps=%g x0=%s%s)" % (rc["how"], "complex" if p["cplx"] else "real", p["m"], p["n"], p["R"],
                            p["eps"], p["x0k"], ", with SOp" if p.get("S") is not None else ""),
                            {"kind": "alias", "problem": prob_dict(p, 0), "mode": rc["mode"], "niter": 30, "finding": rc["how"]})
    nextra = {"columns": 0, "reuse": 0, "raised": 0}
    for rc in recs:
        if rc["kind"] in nextra:
            nextra[rc["kind"]] += 1
            if nextra[rc["kind"]] > 4:
                continue
            p = rc["p"]
            name = "ISTA" if rc.get("mode", 0) == 0 else "FISTA"
            if rc["kind"] == "columns":
                R.violation("%s with %d right-hand sides differs from the column-by-column solves (column %d, max rel. diff %.3g; %s, m=%d n=%d eps=%g x0=%s)"
                            % (name, p["R"], rc["col"], rc["diff"], "with SOp" if p.get("S") is not None else "no SOp", p["m"], p["n"], p["eps"], p["x0k"]),
                            {"kind": "columns", "problem": prob_dict(p, rc["col"]), "mode": rc["mode"], "niter": 30})
            elif rc["kind"] == "reuse":
                R.violation("%s on a re-used solver object (previous solve eps=%g alpha=%s; now eps=%g alpha=%s) differs from a fresh object: "
                            "max rel. diff %.3g, alpha re-used %r fresh %r" % (name, p["pre"]["eps"], p["pre"]["alpha"], p["eps"], p["alpha"],
                                                                              rc["diff"], rc["alpha_reused"], rc["alpha_fresh"]),
                            {"kind": "reuse", "problem": prob_dict(p, 0), "mode": rc["mode"], "niter": 30})
            else:
                R.violation("solver raised on a valid problem (%s, m=%d n=%d %s alpha=%s): %s" % (p.get("family"), p["m"], p["n"],
                            "complex" if p["cplx"] else "real", p["alpha"], rc["err"]),
                            {"kind": "raises", "problem": prob_dict(p, 0), "error": rc["err"], "trace": rc["trace"]})
    for rc in recs:
        if rc["kind"] == "diverged":
            p = rc["p"]
            R.violation("%s diverges (non-finite result) with alpha=%s <= 1/lambda_max=%.6g, eps=%g (%s, m=%d n=%d)"
                        % ("ISTA" if rc["which"] == 0 else "FISTA", p.get("alpha_used"), 1 / p["lam"], p["eps"],
                           "complex" if p["cplx"] else "real", p["m"], p["n"]),
                        {"kind": "kkt", "problem": prob_dict(p, 0), "mode": rc["which"], "cap": 4000 if tier == "quick" else 6000})
        elif rc["kind"] == "run" and rc.get("nonfinite"):
            p = rc["p"]
            R.violation("%s iterates become non-finite within %d iterations (alpha=%s <= 1/lambda_max=%.6g)"
                        % ("ISTA" if rc["mode"] == 0 else "FISTA", rc["nit"], rc["alpha"], 1 / p["lam"]),
                        {"kind": "step", "problem": prob_dict(p, rc["col"]), "mode": rc["mode"], "niter": 30})
    # default alpha = 1/lambda_max (oracle: numpy eigvalsh)
    ndef = 0
    for p in probs:
        if p["alpha"] is None:
            ndef += 1
            a = p.get("alpha_used")
            if a is None and any(rc["kind"] == "raised" and rc["p"] is p for rc in recs):
                continue
            stale = p.get("pre") is not None and p["pre"]["alpha"] is not None     # unchanged code keeps the earlier explicit alpha
            if a is None or not (a * p["lam"] <= 1.0 + 1e-6) or not (stale or a * p["lam"] >= 1.0 - 1e-6):
                R.violation("default step size is not 1/lambda_max(Op^H Op): alpha=%r, 1/lambda_max=%r (m=%d n=%d %s)"
                            % (a, 1.0 / p["lam"], p["m"], p["n"], "complex" if p["cplx"] else "real"),
                            {"kind": "alpha-default", "problem": prob_dict(p, 0), "alpha_default": a})

    # ---- coverage
    nontriv = set()
    evals = 0
    for c in realc:
        for u, o in zip(c["in"], c["out"]):
            evals += 1
            if o != 0:
                nontriv.add(("r", c["kind"], c["t"], float(u)))
    for c in cplxc:
        for u, o in zip(c["in"], c["out"]):
            evals += 1
            if o != 0:
                nontriv.add(("c", c["kind"], c["t"], u))
    for c in halfc:
        evals += len(c["in"])
    for rc in recs:
        if rc["kind"] == "run":
            evals += len(rc["its"])
            if len(rc["its"]) > 1 and np.abs(rc["its"][-1]).max(initial=0) > 0 and np.abs(rc["its"][-1] - rc["its"][0]).max(initial=0) > 0:
                nontriv.add(("run", rc["p"]["id"], rc["mode"], rc["col"]))
    ncase = len(realc) + len(cplxc) + len(halfc) + len(idmap)
    nbad = sum(len(v) for v in fail.values())
    R.cov.update(
        obligations=len(thms) + ncase, discharged=len(thms) + ncase - nbad,
        checker_cmd="make -C coq + coqc Solvers/{OrdLemmas,Thresh,ISTA,PSD}.v Corr/CheckC13.v Props/C13.v (Print Assumptions) + coqc .work/C13/*.v (vm_compute)",
        theorems=thms, axioms_reported=axioms, evaluations=evals, distinct_nontrivial=len(nontriv),
        rule="(a) per (kind, thresh) a grid of quarter-integers + random dyadics (real) / 14 Pythagorean Gaussian points (complex): implementation vs model in Coq "
             "and no grid z beats the output in the prox objective; non-trivial = non-zero output. (b) per problem (random integer A m,n in 1..5, integer y, "
             "eps grid, x0 in none/zeros/random, alpha = 8-bit dyadic below 1/lambda_max, half of it, or default; R in 1..3 right-hand sides) 30 ISTA and 30 FISTA "
             "iterates vs the Qc model, exact objective monotone, exact PSD certificate of I - alpha A^H A, KKT at the converged ISTA result, FISTA objective; "
             "non-trivial run = distinct (problem, solver, column) whose iterates move and end non-zero",
        threshold_cases={"real": len(realc), "complex": len(cplxc), "half_zero_pattern": len(halfc)},
        half_bruteforce_float={"checked": nh, "own_convention_failures": len(own), "documented_convention_failures": len(doc)},
        families={f: sum(1 for p in probs if p.get("family") == f) for f in ("base", "default-alpha", "sop", "reuse", "decay")},
        held_array_runs=stats.get("held_runs", 0),
        columns_compared=stats["columns_compared"], reuse_vs_fresh_compared=stats["reuse_vs_fresh"],
        problems={"total": len(probs), "complex": sum(1 for p in probs if p["cplx"]), "multi_rhs": sum(1 for p in probs if p["R"] > 1),
                  "x0": {k: sum(1 for p in probs if p["x0k"] == k) for k in ("none", "zeros", "random")},
                  "alpha": {k: sum(1 for p in probs if p["alpha_kind"] == k) for k in ("max", "half", "default")},
                  "shapes": {k: sum(1 for p in probs if (p["m"] < p["n"], p["m"] == p["n"], p["m"] > p["n"]) == v)
                             for k, v in (("under", (True, False, False)), ("square", (False, True, False)), ("over", (False, False, True)))},
                  "converged_ista": stats["conv"], "not_converged_skipped_for_kkt": stats["notconv"]},
        run_records=len([r_ for r_ in recs if r_["kind"] == "run"]), kkt_records=len([r_ for r_ in recs if r_["kind"] == "kkt"]),
        not_decided="L1/2 prox claim of _halfthreshold (only its zeroing rule is modelled: Props.C13_half_partial); the complex theorems "
                    "(C13_ista_c_descent / _run_monotone) take the moduli as supplied values with m*m = re^2+im^2: the executed instance meets this "
                    "hypothesis only to 1e-12 relative (checked in Coq, code 9); no KKT/global-minimum theorem for complex data",
        t_python=round(t_py, 1), t_coq=round(t_coq, 1))
    sm = []
    for c in realc[:2]:
        sm.append({"fn": "soft" if c["kind"] == 0 else "hard", "thresh": c["t"], "in": [float(a) for a in c["in"][:6]], "out": [float(a) for a in c["out"][:6]]})
    for rc in [r_ for r_ in recs if r_["kind"] == "run"][:3]:
        p = rc["p"]
        sm.append({"solver": "ISTA" if rc["mode"] == 0 else "FISTA", "A": [[str(a) for a in r_] for r_ in p["A"]], "y": [str(a) for a in p["y"][:, rc["col"]]],
                   "eps": p["eps"], "alpha": rc["alpha"], "x0": p["x0k"], "x_3": [str(a) for a in rc["its"][min(2, len(rc["its"]) - 1)]] if rc["its"] else []})
    R.samples = sm
    R.assumptions = ["numpy eigvalsh is the oracle for lambda_max when choosing alpha (the premise itself is re-certified exactly in Coq)",
                     "complex moduli in the Coq evaluation use a 2^-60 rational square root (execution only)"]
    if stats["conv"] < sum(1 for p in probs if p.get("S") is None) // 2 and not R.violations:
        R.violation("fewer than half of the ISTA runs converged within the cap: the KKT part of the check is not exercising enough cases",
                    {"kind": "generator", "stats": stats}, no_input=True)
    if axioms and not set(axioms) <= common.ALLOWED_AXIOMS:
        R.violation("Props/C13.v depends on unexpected axioms %s" % axioms, {"axioms": axioms}, no_input=True)
    return R.finish()


# ------------------------------------------------------------------ threshold search helpers
def _pen(kind, w):
    return abs(w) if kind == 0 else (0 if w == 0 else 1)


def search_prox(c, cplx):
    """(u, t, z) with z strictly better than the implementation's output in (z-u)^2/2 + t pen(z)."""
    t = c["t"]
    if not cplx:
        zs = [Fraction(k, 16) for k in range(-160, 161)]
        for u, s in zip(c["in"], c["out"]):
            uu, ss = fr(u), fr(s)
            qs = (ss - uu) ** 2 / 2 + fr(t) * _pen(c["kind"], ss)
            for z in zs + [uu]:
                qz = (z - uu) ** 2 / 2 + fr(t) * _pen(c["kind"], z)
                if qs > qz + Fraction(1, 10 ** 9) * (1 + abs(qz)):
                    return {"kind": "prox", "fn": "soft" if c["kind"] == 0 else "hard", "cplx": False, "u": str(float(u)), "t": t,
                            "s": str(float(s)), "z": str(float(z))}
        return None
    for p, s in zip(c["in"], c["out"]):
        u = complex(p[0], p[1])
        qs = 0.5 * abs(s - u) ** 2 + t * _pen(c["kind"], s)
        m = abs(u)
        cand = [0j, u] + ([u / m * k / 8.0 for k in range(0, int(8 * m) + 9)] if m > 0 else [])
        for z in cand:
            qz = 0.5 * abs(z - u) ** 2 + t * _pen(c["kind"], z)
            if qs > qz + 1e-9 * (1 + abs(qz)):
                return {"kind": "prox", "fn": "soft" if c["kind"] == 0 else "hard", "cplx": True, "u": str(u), "t": t, "s": str(complex(s)), "z": str(z)}
    return None


def first_diff(c, cplx):
    t = c["t"]
    for p, s in zip(c["in"], c["out"]):
        if cplx:
            u = complex(p[0], p[1])
            m = float(p[2])
            if c["kind"] == 0:
                e = (max(m - t, 0) * u / m) if m > 0 else 0j
            else:
                e = 0j if m * m <= 2 * t else u
        else:
            u = float(p)
            e = float(soft_fr(fr(u), fr(t))) if c["kind"] == 0 else (0.0 if u * u <= 2 * t else u)
        if abs(s - e) > 1e-9 * (1 + abs(e)):
            return {"fn": "soft" if c["kind"] == 0 else "hard", "cplx": cplx, "u": str(u), "t": t, "s": str(s), "expected": str(e), "z": str(e)}
    return {"fn": "soft" if c["kind"] == 0 else "hard", "cplx": cplx, "t": t, "z": None}
