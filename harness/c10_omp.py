"""C10, OMP / MP part: the diagnostics returned by pylops omp() / OMP.solve()
describe the iterates produced.  For small dictionaries (correlated unit-norm
columns, integer columns), niter_inner in {0 (MP), 40 (OMP)}, niter_outer in
{0, 1, 2, 8}, sigma-stops, real / complex, the solver is driven three ways
under the same numpy seed (functional omp() with a callback, class
OMP.solve() with a Callbacks object, manual setup/step); the record goes to
Corr/CheckC09.v (chk_omp) where counts, cost truthfulness (squares, exact
over Qc / Gaussian Qc), callback-vs-manual iterates and monotonicity are
evaluated.  MP is only generated with unit-norm columns and without
normalizecols (the C14 known finding about MP with column norm^2 > 2 is not
part of this verdict)."""
import os
import time

import numpy as np

from . import common

TOL_LIT = "(q 1 10000000)"
TOL = 1e-7

# unit vectors with rational entries (Pythagorean tuples)
_UNITS = [([3, 4], 5), ([1, 2, 2], 3), ([2, 3, 6], 7), ([1, 4, 8], 9), ([4, 4, 7], 9), ([2, 6, 9], 11), ([6, 6, 7], 11),
          ([1, 2, 2, 4], 5), ([2, 4, 5, 6], 9), ([1, 1, 3, 5], 6), ([1, 1, 1, 1], 2), ([1, 3, 3, 9], 10)]


def gen_dict(r, cplx, unit):
    n = 6
    m = r.choice([4, 5])
    A = np.zeros((n, m), dtype=complex if cplx else float)
    for j in range(m):
        if unit:
            v, d = r.choice(_UNITS)
            pos = r.sample(range(n), len(v))
            for p, a in zip(pos, v):
                u = r.choice([1, -1]) if not cplx else r.choice([1, -1, 1j, -1j])
                A[p, j] = u * a / d
        else:
            for i in range(n):
                A[i, j] = r.randint(-3, 3) + (1j * r.randint(-3, 3) if cplx else 0)
            if not np.any(A[:, j]):
                A[j % n, j] = 1
    if unit and r.random() < 0.7:
        # a strongly correlated pair: column 1 = 0.8*col0 + 0.6*(unit vector orthogonal to col0), renormalised in floats
        k = r.randrange(n)
        e = np.zeros(n, dtype=A.dtype)
        e[k] = 1
        c0 = A[:, 0]
        cand = 0.8 * c0 + 0.6 * (e - (c0.conj() @ e) * c0) / max(1e-12, np.linalg.norm(e - (c0.conj() @ e) * c0))
        A[:, 1] = cand / np.linalg.norm(cand)
    k = r.choice([1, 2, 3])
    xt = np.zeros(m, dtype=A.dtype)
    for j in r.sample(range(m), k):
        xt[j] = r.choice([-3, -2, -1, 1, 2, 3]) + (1j * r.randint(-2, 2) if cplx else 0)
    y = A @ xt
    if r.random() < 0.5:
        y = y + np.array([r.randint(-1, 1) for _ in range(n)]) * 0.25
    return A, y


def scatter(m, cols, x, dtype):
    v = np.zeros(m, dtype=dtype)
    v[list(cols)] = np.asarray(x, dtype=dtype)
    return v


def drive(A, y, niter_outer, niter_inner, sigma, normalizecols, seed):
    """The three drives of the real solver under the same numpy seed."""
    import pylops
    from pylops.optimization.callback import Callbacks
    from pylops.optimization.cls_sparsity import OMP
    from pylops.optimization.sparsity import omp
    m = A.shape[1]
    Op = pylops.MatrixMult(A.copy(), dtype=A.dtype)
    kw = dict(niter_outer=niter_outer, niter_inner=niter_inner, sigma=sigma, normalizecols=normalizecols)
    # manual drive
    np.random.seed(seed)
    s = OMP(Op)
    s.setup(y.copy(), **kw)
    x, cols = [], []
    manual = []
    while s.iiter < niter_outer and s.cost[s.iiter] > sigma:
        x, cols = s.step(x, cols)
        manual.append((np.array(x).copy(), list(cols)))
    # functional
    np.random.seed(seed)
    cbs = []
    xinv, nout, cost = omp(Op, y.copy(), callback=lambda z: cbs.append(np.array(z).copy()), **kw)
    # class API with a Callbacks object
    nb, ne = [0], [0]

    class Tr(Callbacks):
        def on_step_begin(self, solver, x):
            nb[0] += 1

        def on_step_end(self, solver, x):
            ne[0] += 1
    np.random.seed(seed)
    sc = OMP(Op, callbacks=[Tr()])
    xc, noutc, costc = sc.solve(y.copy(), **kw)
    return {"x": np.asarray(xinv), "nout": int(nout), "cost": [float(c) for c in np.atleast_1d(cost)], "cbs": cbs,
            "iiter": int(sc.iiter), "nout_cls": int(noutc), "nbeg": nb[0], "nend": ne[0], "manual": manual,
            "cost_cls": [float(c) for c in np.atleast_1d(costc)], "x_cls": np.asarray(xc), "m": m}


def full_iterates(o, dtype):
    """Callback coefficient vectors scattered onto the columns of the manual drive (same seed => same choices)."""
    m = o["m"]
    man = [scatter(m, cols, x, dtype) for x, cols in o["manual"]]
    cbs = []
    for k, z in enumerate(o["cbs"]):
        if k < len(o["manual"]) and len(z) == len(o["manual"][k][1]):
            cbs.append(scatter(m, o["manual"][k][1], z, dtype))
        else:
            cbs.append(np.full(m, np.nan))
    return man, cbs


def py_checks(c, o):
    """The same clauses on the implementation alone (search / replay)."""
    A, y = c["A"], c["y"]
    bad = []
    k = o["nout"]
    counts = {"returned": k, "callbacks": len(o["cbs"]), "len(cost)-1": len(o["cost"]) - 1, "solver.iiter": o["iiter"],
              "class API": o["nout_cls"], "on_step_begin": o["nbeg"], "on_step_end": o["nend"], "manual steps": len(o["manual"])}
    if len(set(counts.values())) != 1:
        bad.append(("omp_count", "iteration counts disagree: %s" % counts))
    if k > c["niter_outer"]:
        bad.append(("omp_budget", "%d iterations reported with niter_outer=%d" % (k, c["niter_outer"])))
    man, cbs = full_iterates(o, A.dtype)
    xs = [np.zeros(A.shape[1], dtype=A.dtype)] + cbs
    for j in range(min(len(xs), len(o["cost"]))):
        if not np.all(np.isfinite(xs[j])):
            bad.append(("omp_callback", "callback %d has %d entries for %d selected columns" % (j, len(o["cbs"][j - 1]), len(o["manual"][j - 1][1]) if j - 1 < len(o["manual"]) else -1)))
            break
        act = float(np.linalg.norm(y - A @ xs[j]))
        if abs(o["cost"][j] ** 2 - act ** 2) > TOL * (1 + act ** 2):
            bad.append(("omp_cost", "cost[%d]=%.12g but ||y-Op x_%d||=%.12g" % (j, o["cost"][j], j, act)))
            break
    for j, (a, b) in enumerate(zip(cbs, man)):
        if np.all(np.isfinite(a)) and np.abs(a - b).max() > TOL * (1 + np.abs(b).max()):
            bad.append(("omp_callback", "callback %d did not receive the iterate after step %d of a manual drive" % (j + 1, j + 1)))
            break
    if np.all(np.isfinite(xs[-1])) and (len(o["x"]) != len(xs[-1]) or np.abs(o["x"] - xs[-1]).max() > TOL * (1 + np.abs(xs[-1]).max())):
        bad.append(("omp_callback", "the returned x is not the last iterate handed to the callback"))
    if c["mono"]:
        for j in range(len(o["cost"]) - 1):
            if o["cost"][j + 1] > o["cost"][j] + 1e-9 * (1 + o["cost"][j]):
                bad.append(("omp_monotone", "cost[%d]=%.12g > cost[%d]=%.12g" % (j + 1, o["cost"][j + 1], j, o["cost"][j])))
                break
    return bad


def build(tier):
    nsd = {"quick": 3, "thorough": 12}[tier]
    cases = []
    cid = 700000
    for cplx in (False, True):
        for unit in (True, False):
            for sd in range(nsd):
                r = common.rng("C10omp", cplx, unit, sd)
                A, y = gen_dict(r, cplx, unit)
                ny = float(np.linalg.norm(y))
                for inner in ((0, 40) if unit else (40,)):
                    for nout in (0, 1, 2, 8):
                        for sig in (1e-10, 0.35 * ny):
                            for nc in ((False, True) if inner == 40 and sig < 1e-5 and nout == 8 else (False,)):
                                cid += 1
                                cases.append({"id": cid, "cplx": cplx, "unit": unit, "A": A, "y": y, "niter_outer": nout,
                                              "niter_inner": inner, "sigma": sig, "normalizecols": nc, "seed": 100 + sd,
                                              "mono": True})
    return cases


def case_lit(c, o):
    cplx = c["cplx"]
    F = "GF" if cplx else "QcF"
    A = c["A"]
    vl = lambda v: common.vlit(v, cplx)
    man, cbs = full_iterates(o, A.dtype)
    cbs = [np.where(np.isfinite(v), v, 12345.0) for v in cbs]
    return ("(Build_ocase %s %d %d\n  %s\n  %s %d %s\n  %s %d %s\n  %s\n  %d %d %d %d\n  %s)" % (
        F, c["id"], A.shape[1], common.mlit(A, cplx), vl(c["y"]), c["niter_outer"], "true" if c["mono"] else "false",
        vl(o["x"]), o["nout"], common.vlit(o["cost"]), "[" + "; ".join(vl(v) for v in cbs) + "]",
        o["iiter"], o["nout_cls"], o["nbeg"], o["nend"], "[" + "; ".join(vl(v) for v in man) + "]"))


HEAD = """From Coq Require Import QArith Qcanon ZArith List.
From PV Require Import Dict QcInst GaussQc GaussField Check CheckC09.
Import ListNotations.
"""
CODE_KIND = {20: "omp_count", 21: "omp_cost", 22: "omp_callback", 23: "omp_monotone", 24: "omp_budget"}
CODE_TXT = {20: "iteration counts disagree", 21: "cost_k is not ||y-Op x_k|| (exact evaluation)", 22: "callback iterates differ from the manual drive / returned x",
            23: "cost increases", 24: "more iterations than niter_outer / malformed"}


def describe(c):
    return "omp %s %s %dx%d niter_outer=%d niter_inner=%d sigma=%.3g normalizecols=%s seed=%d" % (
        "complex" if c["cplx"] else "real", "unit-columns" if c["unit"] else "integer-columns", c["A"].shape[0], c["A"].shape[1],
        c["niter_outer"], c["niter_inner"], c["sigma"], c["normalizecols"], c["seed"])


def _ser(v):
    return [[float(np.real(t)), float(np.imag(t))] for t in np.asarray(v).ravel()]


def replay_dict(c, kind, detail):
    return {"solver": "omp", "kind": kind, "detail": detail, "shape": list(c["A"].shape), "cplx": bool(c["cplx"]), "A": _ser(c["A"]),
            "y": _ser(c["y"]), "niter_outer": c["niter_outer"], "niter_inner": c["niter_inner"], "sigma": c["sigma"],
            "normalizecols": c["normalizecols"], "seed": c["seed"], "mono": c["mono"], "unit": c["unit"],
            "call": "np.random.seed(seed); pylops.optimization.sparsity.omp(MatrixMult(A), y, niter_outer, niter_inner, sigma, normalizecols, callback=cb)"}


def replay(rp):
    A = np.array([complex(a, b) for a, b in rp["A"]]).reshape(rp["shape"])
    y = np.array([complex(a, b) for a, b in rp["y"]])
    if not rp["cplx"]:
        A, y = A.real.copy(), y.real.copy()
    c = {"A": A, "y": y, "niter_outer": rp["niter_outer"], "niter_inner": rp["niter_inner"], "sigma": rp["sigma"],
         "normalizecols": rp["normalizecols"], "seed": rp["seed"], "mono": rp["mono"], "cplx": rp["cplx"]}
    o = drive(A, y, c["niter_outer"], c["niter_inner"], c["sigma"], c["normalizecols"], c["seed"])
    hit = [b for b in py_checks(c, o) if b[0] == rp["kind"]]
    for b in hit:
        print("reproduced: %s: %s" % b)
    if not hit:
        print("not reproduced")
    return 1 if hit else 0


def extra(R, tier):
    """Run the OMP part; report into R; return coverage counts."""
    t0 = time.time()
    cases = build(tier)
    outs = {}
    for c in cases:
        try:
            outs[c["id"]] = drive(c["A"], c["y"], c["niter_outer"], c["niter_inner"], c["sigma"], c["normalizecols"], c["seed"])
        except Exception as e:
            outs[c["id"]] = {"error": "%s: %s" % (type(e).__name__, e)}
    d = common.workdir("C10omp")
    files = {}
    ok = [c for c in cases if "error" not in outs[c["id"]]]
    for cplx in (False, True):
        sub = [c for c in ok if c["cplx"] == cplx]
        for i, sh in enumerate(common.shard(sub, 24)):
            files["omp_%s_%d" % ("c" if cplx else "r", i)] = (cplx, [case_lit(c, outs[c["id"]]) for c in sh])
    # canary: a run whose reported count is one too small and whose cost entry is perturbed
    src = next((c for c in ok if outs[c["id"]]["nout"] >= 2), None)
    if src is not None:
        o = dict(outs[src["id"]])
        o["nout"] -= 1
        o["cost"] = list(o["cost"])
        o["cost"][1] *= 1.01
        files["omp_canary"] = (src["cplx"], [case_lit(dict(src, id=990001), o)])
    for name, (cplx, items) in files.items():
        with open(os.path.join(d, name + ".v"), "w") as f:
            f.write(HEAD + "Definition cases : list %s := [\n" % ("ocaseC" if cplx else "ocaseR") + ";\n".join(items)
                    + "].\nEval vm_compute in (%s %s cases).\n" % ("runOmpC" if cplx else "runOmpR", TOL_LIT))
    res = common.run_coq_files(d, list(files))
    codes = {}
    for name in files:
        codes.update(common.parse_failing(res[name]))
    if src is not None:
        got = codes.pop(990001, [])
        if 20 not in got or 21 not in got:
            raise SystemExit("OMP canary was not reported by the Coq checker (codes %s): pipeline broken" % got)
    nontriv = set()
    nok = 0
    for c in cases:
        o = outs[c["id"]]
        if "error" in o:
            R.violation("omp raised on a valid dictionary: %s [%s]" % (o["error"], describe(c)), replay_dict(c, "error", o["error"]))
            continue
        if o["nout"] >= 1:
            nontriv.add((c["id"],))
        bad = py_checks(c, o)
        for kind, detail in bad:
            R.violation("%s: %s [%s]" % (kind, detail, describe(c)), replay_dict(c, kind, detail))
        cs = codes.get(c["id"], [])
        for code_ in cs:
            if CODE_KIND[code_] not in {b[0] for b in bad}:
                R.violation("Coq exact evaluation (OMP): %s, not confirmed by the float re-check [%s]" % (CODE_TXT[code_], describe(c)),
                            replay_dict(c, "coq-code-%d" % code_, CODE_TXT[code_]), no_input=True)
        if not cs and not bad:
            nok += 1
    reselect = sum(1 for c in cases if "error" not in outs[c["id"]] and outs[c["id"]]["manual"]
                   and len(outs[c["id"]]["manual"][-1][1]) < outs[c["id"]]["nout"])
    return {"n": len(cases), "ok": nok, "nontriv": len(nontriv), "files": len(files), "t": round(time.time() - t0, 1),
            "reselect": reselect, "sigma_stops": sum(1 for c in cases if "error" not in outs[c["id"]] and 0 < outs[c["id"]]["nout"] < c["niter_outer"]),
            "sample": {"case": describe(cases[len(cases) // 3]), "nout": outs[cases[len(cases) // 3]["id"]].get("nout"),
                       "cost": outs[cases[len(cases) // 3]["id"]].get("cost", [])[:4]}}
