"""C07 — basic operators compute the documented mathematical operation.
Three parts with their own Coq models/specifications and correspondence:
 (a) c07a: First/SecondDerivative, Laplacian, Gradient, directional
     derivatives, CausalIntegration (Ops/Slice, Deriv*, Causal);
 (b) c07b: Pad, Restriction, Flip, Roll, Symmetrize, Transpose, Sum, Identity,
     Zero, Diagonal, Smoothing, Convolve1D/2D/ND, Interp, Bilinear, Regression
     (Ops/IndexOps, Conv, InterpOps);
 (c) c07c: FFT/FFT2D/FFTND vs the DFT matrix with the stated scaling, padding /
     truncation and shifts (Ops/DFT, DFTEngines).
Each part compares, inside Coq, the implementation's dense matrix with the
matrix of the documented formula (written independently of the adjoint)."""
from . import c07a, c07b, c07c, common

PID = "C07"


def replay(rp):
    part = rp.get("part") or rp.get("sub") or ""
    part = part.lower()
    if part == "c07a":
        return c07a.replay(rp)
    if part == "c07b":
        return c07b.replay(rp)
    if part == "c07c":
        return c07c.replay(rp)
    raise SystemExit("unknown C07 part in replay file: %r" % part)


def main(tier):
    R = common.Report(PID, tier)
    common.coq_build()
    parts = []
    for mod in (c07a, c07b, c07c):
        parts.append(mod.run(R, tier))
    thms = sum((p["theorems"] for p in parts), [])
    axioms = sorted(set(sum((list(p["axioms"]) for p in parts), [])))
    nconf = sum(p.get("configurations", p.get("configs", 0)) for p in parts)
    R.cov.update(
        obligations=len(thms) + nconf, discharged=len(thms) + sum(p["discharged"] for p in parts),
        checker_cmd="make -C coq + coqc Props/C07a.v Props/C07b.v Props/C07c.v (Print Assumptions) + coqc .work/C07a|C07b|C07c/*.v (vm_compute)",
        theorems=thms, axioms_reported=axioms,
        evaluations=sum(p["evaluations"] for p in parts), distinct_nontrivial=sum(p["distinct_nontrivial"] for p in parts),
        rule="one case per (family, constructor arguments) over the documented parameter grid; evaluations = unit-vector applications used to extract the dense matrices; non-trivial = forward matrix not identically zero; obligation = implementation matrix ~ matrix of the documented formula (Coq specification, N-d by Kronecker lift) within 1e-9(1+|.|), evaluated in Coq",
        configurations=nconf, parts={m.__name__.split(".")[-1]: {k: v for k, v in p.items() if k in ("configurations", "configs", "families", "evaluations", "distinct_nontrivial", "t_python", "t_coq")} for m, p in zip((c07a, c07b, c07c), parts)})
    if not R.samples:
        R.samples = sum((p.get("samples", [])[:3] for p in parts), [])
    return R.finish()
