"""Shared operator run (L1): for every zoo configuration extract the dense
matrices of forward and adjoint by unit vectors and record the
implementation's outputs on non-basis inputs; evaluate in Coq that
  (1) forward  = x |-> A x   on those inputs      (model of the operator)
  (2) adjoint  = y |-> B y   on those inputs
  (3) B = A^H entrywise                            (hypothesis of the C01 theorem)
Results are cached per (source fingerprint, tier, seed)."""
import json
import os
import pickle
import time
import traceback

import numpy as np

from . import common, l1, zoo

SCALARS_R = [0, 1, -1, 2, -3]
SCALARS_C = [0, 1, -1, 2, -3, 1j, 1 - 2j]
TOL64 = 1e-9


def _cache_path(tier):
    return common.cache_file("oprun", tier)


CANARY = 999999


def _canary():
    """A deliberately wrong case (B is not A^H, outputs are not A x): the
    evaluation must report it with codes 1, 2, 3, otherwise the pipeline
    itself is broken and nothing it says is believed."""
    A = np.array([[1.0, 2.0], [0.0, 1.0]])
    x = np.array([1.0, 1.0])
    return {"id": CANARY, "cplx": False, "N": 2, "M": 2, "A": A, "B": A, "fw": [(x, x)], "ad": [(x, x)]}


def extract(tier):
    """Python side: returns list of dict per configuration."""
    g = zoo.grid(tier)
    nextra = 2 if tier == "quick" else 6
    out = []
    for idx, (fam, params) in enumerate(g):
        rec = {"id": idx, "family": fam, "params": params}
        try:
            op = zoo.build(fam, params)
            W = l1.Wrapped(op)
            rec.update(kind=W.kind, cplx=W.cplx, N=W.N, M=W.M, shape=list(op.shape), domc=W.domc, ranc=W.ranc,
                       dtype=str(op.dtype))
            A, B = W.matrices()
            r = common.rng("oprun", fam, json.dumps(params, sort_keys=True))
            sc = SCALARS_C if W.cplx else SCALARS_R
            fw, ad = [], []
            # (matrix-free apply_columns allocates with the operator's real dtype: same dtype policy as finding C03-K3)
            cplx_in = W.kind == "real" and fam in zoo.COMPLEX_INPUT_OK and "apply_columns" not in str(params.get("expr", ""))
            for (lst, n, f, raw) in ((fw, W.N, W.fwd, op.matvec), (ad, W.M, W.adj, op.rmatvec)):
                xs = [l1.ivector(r, n, W.cplx) for _ in range(nextra)]
                a, b = r.choice(sc), r.choice(sc)
                xs.append(a * xs[0] + b * xs[1])       # exact (small integers)
                xs.append(np.zeros(n, dtype=complex if W.cplx else float))
                # results are HELD (not copied) until all calls of this direction are made, so that an operator
                # that hands out its internal buffer corrupts them and is seen
                held = [f(x.copy()) for x in xs]
                for x, y in zip(xs, held):
                    lst.append((x, np.array(y)))
                if cplx_in:
                    # complex-linear operator of real dtype: Op(x + i y) = Op(x) + i Op(y), judged through the real matrix
                    xr, xi = l1.ivector(r, n, False), l1.ivector(r, n, False)
                    z = np.asarray(raw(xr + 1j * xi))
                    lst.append((xr, np.array(z.real, dtype=float)))
                    lst.append((xi, np.array(z.imag if np.iscomplexobj(z) else np.zeros(len(z)), dtype=float)))
                # homogeneity under exact power-of-two scalings (tiny / large inputs) and integer-dtype inputs
                probes = []
                xs = l1.ivector(r, n, W.cplx)
                for e in (-40, 24):
                    ys = np.array(f(xs * 2.0 ** e)) * 2.0 ** (-e)
                    lst.append((xs, ys))
                    probes.append(("scale", e, xs, ys))
                if W.kind == "real" and fam not in zoo.INT_INPUT_BAD:
                    xi = l1.ivector(r, n, False)
                    yi = np.array(raw(xi.astype(np.int64)), dtype=float)
                    lst.append((xi, yi))
                    probes.append(("int64", 0, xi, yi))
                if W.kind == "complex" and fam not in zoo.REAL_INPUT_BAD:
                    # complex-linear operator given a REAL-dtype (float64) vector: same result as for the same vector typed complex
                    xq = l1.ivector(r, n, False)
                    fresh = zoo.build(fam, params)      # a FRESH instance: the real-typed vector is the first thing it ever sees
                    yq = np.array((fresh.matvec if lst is fw else fresh.rmatvec)(xq.astype(np.float64)), dtype=complex)
                    lst.append((xq.astype(complex), yq))
                    probes.append(("realdtype", 0, xq.astype(complex), yq))
                rec.setdefault("probes", {})["fw" if lst is fw else "ad"] = probes
                lst.append(("comb", a, b))
            # the forward once more AFTER all the adjoint calls above (a non-zero vector and zero): state left behind by
            # rmatvec (work arrays of FFT plans, cached tables) must not leak into matvec
            for xa in (l1.ivector(r, W.N, W.cplx), np.zeros(W.N, dtype=complex if W.cplx else float)):
                ya = np.array(W.fwd(xa.copy()))
                fw.insert(len(fw) - 1, (xa, ya))
                rec["probes"]["fw"].append(("again", 0, xa, ya))
            rec.update(A=A, B=B, fw=fw, ad=ad)
        except Exception as e:  # recorded, judged by the caller
            rec["error"] = "%s: %s" % (type(e).__name__, str(e)[:300])
            rec["trace"] = traceback.format_exc(limit=-3)
        out.append(rec)
    return out


def _case_lit(rec):
    c = rec["cplx"]
    pre = "c" if c else "r"
    fw = [(x, y) for (x, y, *_) in [t for t in rec["fw"] if not isinstance(t[0], str)]]
    ad = [(x, y) for (x, y, *_) in [t for t in rec["ad"] if not isinstance(t[0], str)]]
    pairs = lambda L: "[" + ";\n   ".join("(%s, %s)" % (common.vlit(x, c), common.vlit(y, c)) for x, y in L) + "]"
    return ("{| %s_id := %d%%nat; %s_n := %d%%nat; %s_m := %d%%nat;\n  %s_A := %s;\n  %s_B := %s;\n  %s_fw := %s;\n  %s_ad := %s |}"
            % (pre, rec["id"], pre, rec["N"], pre, rec["M"], pre, common.mlit(rec["A"], c), pre,
               common.mlit(rec["B"], c), pre, pairs(fw), pre, pairs(ad)))


def coq_eval(recs, pid="oprun", tol=TOL64):
    """Evaluate the L1 checks in Coq; returns {id: [codes]}."""
    common.coq_build()
    d = common.workdir(pid)
    ok = [r for r in recs if "error" not in r] + [_canary()]
    # balance shards by size
    ok.sort(key=lambda r: -(r["N"] * r["M"]))
    nsh = max(1, min(4 * common.NPROC, len(ok) // 6 + 1))
    shards = [[] for _ in range(nsh)]
    for i, r in enumerate(ok):
        shards[i % nsh].append(r)
    names = []
    tq = common.qlit(__import__("fractions").Fraction(tol).limit_denominator(10 ** 15))
    for k, sh in enumerate(shards):
        if not sh:
            continue
        name = "cases_%d" % k
        names.append(name)
        rs = [r for r in sh if not r["cplx"]]
        cs = [r for r in sh if r["cplx"]]
        with open(os.path.join(d, name + ".v"), "w") as f:
            f.write("From Coq Require Import QArith Qcanon List.\nFrom PV Require Import Check GaussQc.\nImport ListNotations.\nOpen Scope Qc_scope.\n")
            f.write("Definition tol : Qc := %s.\n" % tq)
            f.write("Definition rcases : list L1caseR := [\n%s].\n" % ";\n".join(_case_lit(r) for r in rs))
            f.write("Definition ccases : list L1caseC := [\n%s].\n" % ";\n".join(_case_lit(r) for r in cs))
            f.write("Eval vm_compute in (failing r_id (checkR tol) rcases ++ failing c_id (checkC tol) ccases).\n")
    outs = common.run_coq_files(d, names)
    res = {}
    for n in names:
        res.update(common.parse_failing(outs[n]))
    if sorted(res.pop(CANARY, [])) != [1, 2, 3]:
        raise RuntimeError("canary case was not reported by the Coq evaluation: pipeline broken")
    return res


def run(tier):
    p = _cache_path(tier)
    if os.path.exists(p):
        try:
            return pickle.load(open(p, "rb"))
        except Exception:
            pass
    t0 = time.time()
    recs = extract(tier)
    t1 = time.time()
    codes = coq_eval(recs)
    t2 = time.time()
    res = {"recs": recs, "codes": codes, "t_python": t1 - t0, "t_coq": t2 - t1}
    tmp = p + ".%d" % os.getpid()
    with open(tmp, "wb") as f:
        pickle.dump(res, f)
    os.replace(tmp, p)
    return res
