"""L1 extraction: dense matrices of forward and adjoint by unit vectors, plus
the implementation's outputs on non-basis inputs."""
import numpy as np


def kind_of(op):
    """real | complex | rlin (declares itself only real-linear)."""
    if not getattr(op, "clinear", True):
        return "rlin"
    if np.issubdtype(np.dtype(op.dtype), np.complexfloating):
        return "complex"
    return "real"


def realify(v):
    v = np.asarray(v)
    return np.concatenate([v.real, v.imag]).astype(float)


def complexify(v):
    n = len(v) // 2
    return v[:n] + 1j * v[n:]


class Wrapped:
    """Uniform view of an operator as a map between coordinate spaces.
    clinear operators: R^n->R^m (real dtype) or C^n->C^m (complex dtype).
    Operators that declare clinear=False are judged with the real inner
    product: every complex side (model side complex iff the dtype is
    complex, data side complex iff the forward returns a complex array) is
    realified as [Re; Im]."""

    def __init__(self, op):
        self.op = op
        self.kind = kind_of(op)
        self.m, self.n = op.shape       # m rows (data), n cols (model)
        cdt = np.issubdtype(np.dtype(op.dtype), np.complexfloating)
        if self.kind == "rlin":
            self.domc = bool(cdt)
            probe = op.matvec(np.zeros(self.n, dtype=complex if cdt else float))
            self.ranc = bool(np.iscomplexobj(probe))
            self.cplx = False
        else:
            self.domc = self.ranc = False
            self.cplx = bool(cdt)
        self.N = self.n * (2 if self.domc else 1)
        self.M = self.m * (2 if self.ranc else 1)

    def fwd(self, x):
        if self.kind == "rlin":
            x = np.asarray(x, dtype=float)
            y = self.op.matvec(complexify(x) if self.domc else x)
            return realify(y) if self.ranc else _real_checked(y)
        x = np.asarray(x, dtype=complex if self.cplx else float)
        y = np.asarray(self.op.matvec(x))
        return y if self.cplx else _real_checked(y)

    def adj(self, y):
        if self.kind == "rlin":
            y = np.asarray(y, dtype=float)
            x = self.op.rmatvec(complexify(y) if self.ranc else y)
            return realify(x) if self.domc else _real_checked(x)
        y = np.asarray(y, dtype=complex if self.cplx else float)
        x = np.asarray(self.op.rmatvec(y))
        return x if self.cplx else _real_checked(x)

    def matrices(self):
        A = np.zeros((self.M, self.N), dtype=complex if self.cplx else float)
        B = np.zeros((self.N, self.M), dtype=complex if self.cplx else float)
        for j in range(self.N):
            e = np.zeros(self.N)
            e[j] = 1
            A[:, j] = self.fwd(e)
        for i in range(self.M):
            e = np.zeros(self.M)
            e[i] = 1
            B[:, i] = self.adj(e)
        return A, B


def _real_checked(y):
    if np.iscomplexobj(y):
        if np.abs(y.imag).max(initial=0) > 0:
            raise TypeError("real-dtype operator returned a complex result with non-zero imaginary part")
        return y.real
    return np.asarray(y, dtype=float)


def ivector(r, n, cplx):
    if cplx:
        return np.array([complex(r.randint(-9, 9), r.randint(-9, 9)) for _ in range(n)])
    return np.array([float(r.randint(-9, 9)) for _ in range(n)])
