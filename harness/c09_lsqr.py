"""C09 / C10: tie between pylops' LSQR class and its Gallina model
(Solvers/LSQR.v).  The solver object is driven by hand (setup + step); after
each step the attributes it computed are read from outside: the NORMS (beta,
anorm, alfa, rhobar1, rho, xnorm, gamma, sqrt(ddnorm), rnorm, |r1norm|) are
handed to the model as supplied square roots — Coq checks each of them against
the radicand the model computes itself (0 <= m, |m^2 - v| <= eps (1 + v)) —
and x, u, v, w and the scalar diagnostics are compared with the model state
(Corr/CheckLSQR.v, 1e-9 relative).  Real integer systems; square, tall, wide;
damp 0 and non-zero; x0 None / non-zero; k up to min(m, n) and never beyond
the last iteration whose quantities are determined by the data rather than by
rounding noise (gk_reliable)."""
import os

import numpy as np

from . import common

TOL_LIT = "(q 1 1000000000)"
EPS_LIT = "(q 1 1000000000)"
SC = ["alfa", "beta", "rhobar", "phibar", "anorm", "acond", "arnorm", "xnorm", "rnorm", "r1norm", "r2norm"]
CODE_TXT = {40: "malformed case", 41: "a square root supplied by the implementation is not the root of the model's radicand",
            42: "x_k differs from the model's", 43: "u, v or w differs from the model's",
            44: "a scalar diagnostic (alfa, beta, rhobar, phibar, anorm, acond, arnorm, xnorm, rnorm, r1norm, r2norm) differs from the model's",
            45: "cost history differs from the model's", 46: "the state after setup differs from the model's"}
CODES = {"C09": {40, 41, 42, 43, 46}, "C10": {40, 41, 44, 45, 46}}


def snap(s, x):
    return {"x": np.array(x, dtype=float), "u": np.array(s.u, dtype=float), "v": np.array(s.v, dtype=float), "w": np.array(s.w, dtype=float),
            "sc": [float(getattr(s, a)) for a in SC], "cost": [float(c) for c in s.cost]}


def drive(A, y, x0, damp, K, calc_var=True):
    from pylops import MatrixMult
    from pylops.optimization.cls_basic import LSQR
    Op = MatrixMult(A.copy(), dtype=A.dtype)
    s = LSQR(Op)
    x = s.setup(y.copy(), x0=None if x0 is None else x0.copy(), damp=damp, atol=0, btol=0, conlim=0, niter=K + 5, calc_var=calc_var)
    out = {"sb": float(s.beta), "sa": float(s.alfa), "setup": snap(s, x), "steps": []}
    for _ in range(K):
        x = s.step(x)
        st = snap(s, x)
        st["roots"] = [float(s.beta), float(s.anorm), float(s.alfa), float(s.rhobar1), float(s.rho), float(s.xnorm), float(s.gamma),
                       float(np.sqrt(s.ddnorm)), float(s.rnorm), float(s.cost[-1])]
        out["steps"].append(st)
    return out


def reliable_steps(A, y, xb):
    """Number of iterations whose u, v, alfa, beta are determined by the data: stop BEFORE an iteration that
    normalises a rounding-noise vector (tiny non-zero beta / alfa); an exact zero is a clean breakdown."""
    sc = 1e-9 * float(np.linalg.norm(A))
    u = y - A @ xb
    beta = float(np.linalg.norm(u))
    if beta == 0:
        return 0
    u = u / beta
    v = A.T @ u
    alfa = float(np.linalg.norm(v))
    if alfa == 0 or alfa < sc:
        return 0
    v = v / alfa
    for k in range(1, min(A.shape) + 1):
        u = A @ v - alfa * u
        beta = float(np.linalg.norm(u))
        if beta == 0:
            return k
        if beta < sc:
            return k - 1
        u = u / beta
        v = A.T @ u - beta * v
        alfa = float(np.linalg.norm(v))
        if alfa == 0:
            return k
        if alfa < sc:
            return k - 1
        v = v / alfa
    return min(A.shape)


def step_lit(st, roots=None):
    r = roots if roots is not None else [0.0] * 10
    return "(Build_lstep (mkr QcO %s) %s %s %s %s %s %s)" % (
        " ".join(common.qlit(a) for a in r), common.vlit(st["x"]), common.vlit(st["u"]), common.vlit(st["v"]), common.vlit(st["w"]),
        common.vlit(st["sc"]), common.vlit(st["cost"]))


def case_lit(c, o):
    x0 = "None" if c["x0"] is None else "(Some %s)" % common.vlit(c["x0"])
    return "(Build_lcase %d %d\n  %s\n  %s %s %s %s %s\n  %s\n  [%s])" % (
        c["id"], c["A"].shape[1], common.mlit(c["A"]), common.vlit(c["y"]), x0, common.qlit(c["damp"]), common.qlit(o["sb"]), common.qlit(o["sa"]),
        step_lit(o["setup"]), ";\n   ".join(step_lit(st, st["roots"]) for st in o["steps"]))


HEAD = """From Coq Require Import QArith Qcanon ZArith List.
From PV Require Import Dict QcInst Check LSQR CheckLSQR.
Import ListNotations.
"""


def build(systems):
    """systems: list of dict(kind, A, y, x0r) (real)."""
    cases = []
    cid = 8000
    for sysd in systems:
        for x0k in ("none", "rand"):
            for damp in (0.0, 0.5, 3.0):
                x0 = None if x0k == "none" else sysd["x0r"].copy()
                xb = np.zeros(sysd["A"].shape[1]) if x0 is None else x0
                K = min(min(sysd["A"].shape), reliable_steps(sysd["A"], sysd["y"], xb))
                cid += 1
                cases.append({"id": cid, "kind": sysd["kind"], "A": sysd["A"], "y": sysd["y"], "x0": x0, "x0k": x0k, "damp": damp, "K": K,
                              "cplx": False, "niter": K, "seed": sysd.get("seed", 0)})
    return cases


def evaluate(tag, cases):
    outs = {}
    for c in cases:
        try:
            outs[c["id"]] = drive(c["A"], c["y"], c["x0"], c["damp"], c["K"], c["id"] % 2 == 0)
        except Exception as e:
            outs[c["id"]] = {"error": "%s: %s" % (type(e).__name__, e)}
    d = common.workdir(tag)
    ok = [c for c in cases if "error" not in outs[c["id"]]]
    files = {}
    for i, sh in enumerate(common.shard(ok, 3)):
        files["lsqr_%d" % i] = [case_lit(c, outs[c["id"]]) for c in sh]
    # canaries: a wrong supplied root (rho) and a perturbed x must be reported
    src = next((c for c in ok if len(outs[c["id"]]["steps"]) >= 2), None)
    if src is not None:
        import copy
        o1 = copy.deepcopy(outs[src["id"]])
        o1["steps"][0]["roots"][4] *= 1.0001
        o2 = copy.deepcopy(outs[src["id"]])
        o2["steps"][1]["x"][0] += 1e-5
        files["lsqr_canary"] = [case_lit(dict(src, id=9911), o1), case_lit(dict(src, id=9912), o2)]
    for name, items in files.items():
        with open(os.path.join(d, name + ".v"), "w") as f:
            f.write(HEAD + "Definition cases : list lcase := [\n" + ";\n".join(items) + "].\nEval vm_compute in (runLsqr %s %s cases).\n" % (TOL_LIT, EPS_LIT))
    res = common.run_coq_files(d, list(files))
    codes = {}
    for name in files:
        codes.update(common.parse_failing(res[name]))
    if src is not None:
        g1, g2 = codes.pop(9911, []), codes.pop(9912, [])
        if 41 not in g1 or 42 not in g2:
            raise SystemExit("LSQR model canaries were not reported by the Coq checker (%s, %s): pipeline broken" % (g1, g2))
    return outs, codes, len(files)
