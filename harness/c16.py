"""C16 — MemoizeOperator is transparent.

Model: State/Memoize.v.  memo2 = THE model of the current code (direction-
tagged store entries searched by np.allclose, oldest entry dropped, copies
returned; a caller's in-place write to a returned array is the history
operation Mut k w and cannot reach the store).  memo1 = legacy model of the
code before the fix (one shared store, stored arrays returned without copy),
kept for documentation only.  Theorems in Props/C16.v.

Correspondence: random histories (calls in both directions over a small
alphabet that contains nearly-equal vectors and outputs of earlier calls,
in-place mutation of arrays returned earlier) are run on the real
pylops.MemoizeOperator wrapped around a counting operator; returned values,
number of evaluations of the wrapped operator and len(store) after every
call are compared INSIDE Coq with memo2 executed on the same history.

Property judged on the implementation directly: every call must return
what the bare operator returns for that input (within the closeness used to
match stored inputs), len(store) <= max_neval, at most one evaluation per
call and none for an immediately repeated input.  Failing histories are
delta-debugged to minimal ones and reported as violations with a replay; in
particular the two canonical probes (mixed-direction lookup, aliasing of a
returned array) are run first: if the legacy behaviour ever reappears that is
a VIOLATION, not a known finding."""
import hashlib
import json
import os
import subprocess
import time

import numpy as np

from . import common

PID = "C16"
HARNESS_VERSION = 2
MYFILES = ["State/Memoize.v", "Corr/CheckC16.v"]

# No known findings: both historical defects (shared store, aliasing of returned
# arrays) were repaired in /repo; their reappearance is a violation.  Entries of
# known_findings.json for C16 carrying a "trigger" ('mixed' / 'mutation') would
# still be honoured.
PROPOSED_KNOWN = []

RTOL, ATOL = 1e-5, 1e-8          # numpy defaults used by np.allclose(stored, x)


# ------------------------------------------------------------------ coq files
def ensure_compiled():
    """Until integrated in _CoqProject: compile this property's own .v files
    when their .vo is missing or older than the source / an earlier file."""
    th = os.path.join(common.COQDIR, "theories")
    newest = 0.0
    for f in MYFILES:
        src = os.path.join(th, f)
        vo = src[:-2] + ".vo"
        newest = max(newest, os.path.getmtime(src))
        if not os.path.exists(vo) or os.path.getmtime(vo) < newest:
            p = subprocess.run(["timeout", "600", "coqc", "-Q", "theories", "PV", "theories/" + f], cwd=common.COQDIR,
                               stdout=subprocess.PIPE, stderr=subprocess.STDOUT, text=True)
            if p.returncode != 0:
                raise SystemExit("coqc %s failed:\n%s" % (f, p.stdout[-3000:]))
            newest = max(newest, os.path.getmtime(vo))
    bad = subprocess.run("grep -nE '\\b(Admitted|admit|Axiom|Parameter|Conjecture)\\b' %s theories/Props/C16.v | grep -v '(\\*' || true"
                         % " ".join("theories/" + f for f in MYFILES), shell=True, cwd=common.COQDIR,
                         stdout=subprocess.PIPE, text=True).stdout.strip()
    if bad:
        raise SystemExit("forbidden declaration:\n" + bad)


# ------------------------------------------------------------------ implementation runs
def _pylops():
    import pylops
    return pylops


def build(A, cplx, maxn):
    """MemoizeOperator around a counting wrapper around MatrixMult(A)."""
    pylops = _pylops()
    dt = np.complex128 if cplx else np.float64
    base = pylops.MatrixMult(np.asarray(A, dtype=dt), dtype=dt)

    class Counting(pylops.LinearOperator):
        def __init__(self, Op):
            self.inner = Op
            self.count = 0
            super().__init__(dtype=Op.dtype, shape=Op.shape)

        def _matvec(self, x):
            self.count += 1
            return self.inner._matvec(x)

        def _rmatvec(self, y):
            self.count += 1
            return self.inner._rmatvec(y)

    C = Counting(base)
    M = pylops.MemoizeOperator(C, max_neval=maxn)
    return M, C, base


def bare(A, cplx, d, v):
    A = np.asarray(A, dtype=np.complex128 if cplx else np.float64)
    return A @ v if d == "F" else A.conj().T @ v


def run_history(A, cplx, maxn, hist):
    """hist: [('c', 'F'|'A', v) | ('m', k, w)].  Returns per call
    (returned value copy, evaluations so far, len(store), neval attribute)."""
    M, C, _ = build(A, cplx, maxn)
    rets, obs = [], []
    dt = np.complex128 if cplx else np.float64
    for op in hist:
        if op[0] == "c":
            v = np.array(op[2], dtype=dt)
            r = M.matvec(v) if op[1] == "F" else M.rmatvec(v)
            rets.append(r)
            obs.append((np.array(r, dtype=dt, copy=True), C.count, len(M.store), getattr(M, "neval", None)))
        else:
            k, w = op[1], np.array(op[2], dtype=dt)
            if k < len(rets):
                rets[k][...] = w          # the caller writes into the array it was given
    return obs


def prop_bound(A, cplx, d, v):
    """componentwise bound on |Op x' - Op x| over all x' with allclose(x', x)."""
    A = np.abs(np.asarray(A, dtype=np.complex128 if cplx else np.float64))
    t = ATOL + RTOL * np.abs(v)
    return (A @ t if d == "F" else A.T @ t) * 1.5 + 1e-9


def judge(A, cplx, maxn, hist, obs=None):
    """The property on the implementation.  Returns None or (call index, reason)."""
    if obs is None:
        obs = run_history(A, cplx, maxn, hist)
    calls = [op for op in hist if op[0] == "c"]
    prev_count = 0
    prev = None
    j = 0
    for op in hist:
        if op[0] != "c":
            prev = None
            continue
        r, cnt, ln, attr = obs[j]
        v = np.array(op[2], dtype=r.dtype)
        e = bare(A, cplx, op[1], v)
        if r.shape != e.shape or not np.all(np.abs(r - e) <= prop_bound(A, cplx, op[1], v)):
            return (j, "call %d (%s) returned %s, the bare operator gives %s"
                    % (j, "matvec" if op[1] == "F" else "rmatvec", _fmt(r), _fmt(e)))
        if ln > maxn:
            return (j, "len(store) = %d exceeds max_neval = %d after call %d" % (ln, maxn, j))
        if cnt - prev_count > 1:
            return (j, "call %d evaluated the wrapped operator %d times" % (j, cnt - prev_count))
        if prev is not None and prev[0] == op[1] and np.array_equal(prev[1], v) and cnt != prev_count:
            return (j, "call %d repeats the input of call %d but evaluated the wrapped operator again" % (j, j - 1))
        if attr is not None and attr != cnt:
            return (j, "neval attribute = %s but the wrapped operator was evaluated %d times" % (attr, cnt))
        prev_count = cnt
        prev = (op[1], v)
        j += 1
    return None


def _fmt(v):
    return "[" + ", ".join(("%g%+gj" % (t.real, t.imag)) if np.iscomplexobj(v) else ("%g" % t) for t in np.ravel(v)) + "]"


def hit_flags(A, cplx, maxn, hist):
    """per call: True if the wrapped operator was NOT evaluated (cache hit)."""
    obs = run_history(A, cplx, maxn, hist)
    flags, prev = [], 0
    for o in obs:
        flags.append(o[1] == prev)
        prev = o[1]
    return flags


def triggers(A, cplx, maxn, hist):
    """Triggers of the known findings present in a history: 'mixed' = both
    directions used; 'mutation' = the caller writes into an array that was
    returned by a cache HIT (a write into a freshly computed result cannot
    reach the store in the code as it stands and is not a known trigger)."""
    dirs = {op[1] for op in hist if op[0] == "c"}
    t = set()
    muts = [op for op in hist if op[0] == "m"]
    if muts:
        hf = hit_flags(A, cplx, maxn, hist)
        if any(op[1] < len(hf) and hf[op[1]] for op in muts):
            t.add("mutation")
    if len(dirs) > 1:
        t.add("mixed")
    return t


def drop_hit_mutations(A, cplx, maxn, hist):
    for _ in range(4):
        hf = hit_flags(A, cplx, maxn, hist)
        drop = {i for i, op in enumerate(hist) if op[0] == "m" and (op[1] >= len(hf) or hf[op[1]])}
        if not drop:
            break
        hist = remove_ops(hist, drop)
    return hist


def variants(A, cplx, maxn, hist):
    """Sub-histories ordered from 'no known trigger can be present' to the full history."""
    out = []
    nomut = [op for op in hist if op[0] == "c"]
    for dsel in ("F", "A"):
        out.append([op for op in nomut if op[1] == dsel])
    for dsel in ("F", "A"):
        one = remove_ops(hist, {i for i, op in enumerate(hist) if op[0] == "c" and op[1] != dsel})
        out.append(drop_hit_mutations(A, cplx, maxn, one))
    out.append(nomut)
    out.append(drop_hit_mutations(A, cplx, maxn, hist))
    out.append(list(hist))
    seen, res = set(), []
    for h in out:
        k = repr([(op[0], op[1], np.asarray(op[2]).tolist()) for op in h])
        if h and k not in seen:
            seen.add(k)
            res.append(h)
    return res


def find_failure(A, cplx, maxn, hist, present):
    """Minimal failing history of the property on the implementation.  Prefers a
    failure that is NOT explained by a known trigger still present in the tree.
    Returns (minimal history, reason, triggers, is_known) or None."""
    fails = lambda h: judge(A, cplx, maxn, h) is not None
    best = None
    for hv in variants(A, cplx, maxn, hist):
        if not fails(hv):
            continue
        hm = shrink_values(A, cplx, maxn, ddmin(A, cplx, maxn, hv, fails), fails)
        trig = triggers(A, cplx, maxn, hm)
        known = bool(trig) and all(present.get(t) for t in trig)
        res = (hm, judge(A, cplx, maxn, hm)[1], trig, known)
        if not known:
            return res
        if best is None:
            best = res
    return best


def remove_ops(hist, drop):
    """Remove the operations at positions `drop`; mutations of removed calls go too, call indices are renumbered."""
    cidx, newidx, j, nj = {}, {}, 0, 0
    for i, op in enumerate(hist):
        if op[0] == "c":
            if i not in drop:
                newidx[j] = nj
                nj += 1
            j += 1
    out = []
    for i, op in enumerate(hist):
        if i in drop:
            continue
        if op[0] == "c":
            out.append(op)
        elif op[1] in newidx:
            out.append(("m", newidx[op[1]], op[2]))
    return out


def ddmin(A, cplx, maxn, hist, fails):
    """Delta debugging on the operation list (ddmin, granularity down to single ops)."""
    assert fails(hist)
    n = 2
    while len(hist) >= 2:
        size = max(1, len(hist) // n)
        chunks = [set(range(i, min(i + size, len(hist)))) for i in range(0, len(hist), size)]
        reduced = False
        for ch in chunks:
            cand = remove_ops(hist, ch)
            if cand and len(cand) < len(hist) and fails(cand):
                hist, n, reduced = cand, max(n - 1, 2), True
                break
        if not reduced:
            if size == 1:
                break
            n = min(len(hist), n * 2)
    return hist


def shrink_values(A, cplx, maxn, hist, fails):
    """After ddmin: try to replace mutation contents / inputs by simpler ones (zeros) while still failing."""
    for i, op in enumerate(hist):
        if op[0] == "m":
            cand = list(hist)
            cand[i] = ("m", op[1], [0] * len(op[2]))
            if fails(cand):
                hist = cand
    return hist


# ------------------------------------------------------------------ probes (behavioural)
PROBE_A = [[1, 2], [3, 4], [0, 1]]


PROBE_MIXED = [("c", "A", [1, 2, 3]), ("c", "F", [7, 13])]
PROBE_ALIAS = [("c", "F", [1, 1]), ("c", "F", [1, 1]), ("m", 1, [103, 107, 101]), ("c", "F", [1, 1])]


def probe_mixed():
    return judge(PROBE_A, False, 3, PROBE_MIXED)


def probe_alias():
    return judge(PROBE_A, False, 3, PROBE_ALIAS)


# ------------------------------------------------------------------ generation
SHAPES = [(2, 2), (3, 3), (3, 2), (2, 3), (4, 2), (2, 4), (4, 3), (1, 2), (3, 1)]


def gen_matrix(r, cplx):
    while True:
        m, n = r.choice(SHAPES)
        A = np.array([[r.randint(-2, 2) + (1j * r.randint(-2, 2) if cplx else 0) for _ in range(n)] for _ in range(m)])
        if not np.any(A):
            continue
        G = A.conj().T @ A
        H = A @ A.conj().T
        if np.allclose(G, np.eye(n)) or np.allclose(H, np.eye(m)):      # must not be (semi-)unitary
            continue
        return A


def _ivec(r, n, cplx, lo=-3, hi=3):
    while True:
        v = [r.randint(lo, hi) + (1j * r.randint(lo, hi) if cplx else 0) for _ in range(n)]
        if any(v):
            return np.array(v, dtype=np.complex128 if cplx else np.float64)


def gen_history(r, A, cplx, maxn, L, mode, with_mut):
    """Generate and run in one pass (inputs may be outputs of earlier calls).
    Returns (concrete history, obs, stats)."""
    m, n = A.shape
    dt = np.complex128 if cplx else np.float64
    x1 = _ivec(r, n, cplx)
    x2 = _ivec(r, n, cplx)
    y1 = _ivec(r, m, cplx)
    y2 = _ivec(r, m, cplx)
    def pert(v, eps):
        p = np.array([(1 if r.random() < 0.7 else 0) for _ in v], dtype=dt)
        if not p.any():
            p[0] = 1
        if cplx and r.random() < 0.5:
            p = p * 1j
        return v + eps * p
    alpha = {"F": [x1, x2, pert(x1, 1e-9), pert(x1, 1e-3), pert(x2, 1e-9)],
             "A": [y1, y2, pert(y1, 1e-9), pert(y1, 1e-3)]}
    M, C, _ = build(A, cplx, maxn)
    hist, obs, rets, vals, cdir = [], [], [], [], []
    st = {"fed": 0, "near": 0, "mut": 0}
    steps = 0
    while steps < L:
        steps += 1
        if with_mut and rets and r.random() < 0.25:
            k = r.randrange(len(rets)) if r.random() < 0.4 else len(rets) - 1
            cur = np.array(rets[k], dtype=dt, copy=True)
            kind = r.choice(["add", "scale", "set", "zero"])
            if kind == "add":
                w = cur.copy(); w[r.randrange(len(w))] += r.choice([1, -2, 100])
            elif kind == "scale":
                w = cur * r.choice([2, -1])
            elif kind == "set":
                w = _ivec(r, len(cur), cplx, -9, 9)
            else:
                w = np.zeros_like(cur)
            if np.abs(w).max(initial=0) > 1e6:
                continue
            rets[k][...] = w
            hist.append(("m", k, w.copy()))
            st["mut"] += 1
            continue
        d = mode if mode in ("F", "A") else r.choice(["F", "A"])
        src = None
        if r.random() < 0.4:
            # outputs of earlier calls that live in the input space of direction d
            cands = [i for i, dd in enumerate(cdir) if dd != d and np.abs(vals[i]).max(initial=0) < 1e4]
            if mode in ("F", "A") and m == n:
                cands = [i for i in range(len(cdir)) if np.abs(vals[i]).max(initial=0) < 1e4]
            if cands:
                src = vals[r.choice(cands)].copy()
                st["fed"] += 1
        if src is None:
            i = r.randrange(len(alpha[d]))
            if i >= 2:
                st["near"] += 1
            src = alpha[d][i].copy()
        v = src
        res = M.matvec(v.copy()) if d == "F" else M.rmatvec(v.copy())
        rets.append(res)
        vals.append(np.array(res, dtype=dt, copy=True))
        cdir.append(d)
        hist.append(("c", d, v.copy()))
        obs.append((vals[-1], C.count, len(M.store), getattr(M, "neval", None)))
    return hist, obs, st


def _ac(a, b, f):
    return bool(np.all(np.abs(a - b) <= f * (ATOL + RTOL * np.abs(b))))


def borderline(A, cplx, hist, obs):
    """True if some allclose decision between two vectors that can meet in the
    store would flip when both tolerances are scaled by 10 or 1/10."""
    vecs = []
    j = 0
    for op in hist:
        vecs.append(np.asarray(op[2]))
        if op[0] == "c":
            vecs.append(obs[j][0])
            vecs.append(bare(A, cplx, op[1], np.asarray(op[2])))
            j += 1
    groups = {}
    for v in vecs:
        groups.setdefault(v.shape, []).append(np.asarray(v, dtype=complex))
    for g in groups.values():
        Vs = np.array(g)
        D = np.abs(Vs[:, None, :] - Vs[None, :, :])          # D[i, j] = |v_i - v_j|, tolerance from v_j
        T = ATOL + RTOL * np.abs(Vs[None, :, :])
        if np.any(np.all(D <= 10.0 * T, axis=2) != np.all(D <= 0.1 * T, axis=2)):
            return True
    return False


# ------------------------------------------------------------------ literals
def _vl(v, cplx):
    return common.vlit([complex(t) for t in v] if cplx else [float(np.real(t)) for t in v], cplx)


def case_lit(c):
    cplx = c["cplx"]
    pre = "c16" if cplx else "r16"
    hl = []
    for op in c["hist"]:
        if op[0] == "c":
            hl.append("Call %s %s" % ("Fwd" if op[1] == "F" else "Adj", _vl(op[2], cplx)))
        else:
            hl.append("Mut %d %s" % (op[1], _vl(op[2], cplx)))
    ol = ["(%s, %d, %d)" % (_vl(o[0], cplx), o[1], o[2]) for o in c["out"]]
    A = np.asarray(c["A"])
    return ("{| %s_id := %d; %s_model := %d; %s_n := %d; %s_A := %s; %s_maxn := %d;\n   %s_hist := [%s];\n   %s_out := [%s] |}"
            % (pre, c["id"], pre, c["model"], pre, A.shape[1], pre,
               common.mlit([[complex(t) for t in row] for row in A] if cplx else [[float(np.real(t)) for t in row] for row in A], cplx),
               pre, c["maxn"], pre, ";\n     ".join(hl), pre, ";\n     ".join(ol)))


def coq_check(cases, per=25):
    d = common.workdir(PID)
    names = []
    for k, sh in enumerate(common.shard(cases, per)):
        nm = "c16_%03d" % k
        with open(os.path.join(d, nm + ".v"), "w") as f:
            f.write("From Coq Require Import QArith Qcanon ZArith List.\n"
                    "From PV Require Import Check GaussQc Memoize CheckC16.\nImport ListNotations.\n"
                    "Local Close Scope Qc_scope.\nLocal Close Scope Q_scope.\nLocal Open Scope nat_scope.\n")
            f.write("Definition rcases : list caseR16 := [\n%s].\n" % ";\n".join(case_lit(c) for c in sh if not c["cplx"]))
            f.write("Definition ccases : list caseC16 := [\n%s].\n" % ";\n".join(case_lit(c) for c in sh if c["cplx"]))
            f.write("Eval vm_compute in (failing16 rcases ccases).\n")
        names.append(nm)
    outs = common.run_coq_files(d, names)
    failing = {}
    for nm in names:
        failing.update(common.parse_failing(outs[nm]))
    return failing


# ------------------------------------------------------------------ replay
def _hist_json(hist):
    out = []
    for op in hist:
        if op[0] == "c":
            out.append({"op": "matvec" if op[1] == "F" else "rmatvec", "x": [str(complex(t)) for t in op[2]]})
        else:
            out.append({"op": "mutate_returned", "call": int(op[1]), "new_content": [str(complex(t)) for t in op[2]]})
    return out


def _hist_from_json(hj, cplx):
    cv = (lambda L: np.array([complex(t) for t in L])) if cplx else (lambda L: np.array([complex(t).real for t in L]))
    out = []
    for o in hj:
        if o["op"] == "mutate_returned":
            out.append(("m", int(o["call"]), cv(o["new_content"])))
        else:
            out.append(("c", "F" if o["op"] == "matvec" else "A", cv(o["x"])))
    return out


def replay_dict(A, cplx, maxn, hist, reason):
    return {"operator": "MemoizeOperator(MatrixMult(A), max_neval)", "A": [[str(complex(t)) for t in row] for row in np.asarray(A)],
            "complex": bool(cplx), "max_neval": int(maxn), "history": _hist_json(hist), "observed": reason,
            "expected": "every call returns what MatrixMult(A) returns for that input; len(store) <= max_neval; no re-evaluation of a repeated input"}


def replay(rp):
    if "history" not in rp:
        print("no concrete history recorded (correspondence-only violation): re-run ./check C16 quick")
        return 1
    cplx = rp["complex"]
    A = np.array([[complex(t) for t in row] for row in rp["A"]])
    if not cplx:
        A = A.real
    hist = _hist_from_json(rp["history"], cplx)
    res = judge(A, cplx, rp["max_neval"], hist)
    if res is None:
        print("not reproduced")
        return 0
    print("reproduced:", res[1])
    return 1


# ------------------------------------------------------------------ main
def main(tier):
    R = common.Report(PID, tier)
    common.coq_build()
    ensure_compiled()
    thms, axioms = common.props_assumptions(PID)
    t0 = time.time()
    model = 2                      # memo2 is THE model of the current code
    for nm, hp, pr in (("mixed-direction lookup (rmatvec y; matvec Op^H y)", PROBE_MIXED, probe_mixed()),
                       ("aliasing of a returned array (hit; caller overwrites it; same call again)", PROBE_ALIAS, probe_alias())):
        if pr is not None:
            R.violation("MemoizeOperator is not transparent: legacy defect is back: %s: %s" % (nm, pr[1]),
                        replay_dict(np.array(PROBE_A), False, 3, hp, pr[1]))
    R.notes.append("canonical probes (mixed-direction, aliasing): %s; model memo2"
                   % ("both transparent" if not R.violations else "FAILED"))

    nh, Lmax = (300, 8) if tier == "quick" else (5000, 20)
    cases, discarded = [], 0
    dist = {"real": 0, "complex": 0, "square": 0, "rect": 0, "mode_F": 0, "mode_A": 0, "mode_mixed": 0,
            "with_mutation": 0, "fed_back_inputs": 0, "near_equal_inputs": 0, "hits": 0, "evictions": 0, "calls": 0}
    maxn_count = {}
    # fixed corpus first: the two canonical probes (as cases of the correspondence)
    fixed = [(np.array(PROBE_A), False, 3, [("c", "A", np.array([1., 2, 3])), ("c", "F", np.array([7., 13]))]),
             (np.array(PROBE_A), False, 3, [("c", "F", np.array([1., 1])), ("c", "F", np.array([1., 1])),
                                            ("m", 1, np.array([103., 107, 101])), ("c", "F", np.array([1., 1]))])]
    for A, cplx, maxn, hist in fixed:
        obs = run_history(A, cplx, maxn, hist)
        cases.append({"id": len(cases), "A": A, "cplx": cplx, "maxn": maxn, "hist": hist, "out": obs, "model": model, "mode": "M"})
    i = 0
    while len(cases) < nh + len(fixed):
        r = common.rng(PID, tier, i)
        i += 1
        cplx = r.random() < 0.4
        A = gen_matrix(r, cplx)
        maxn = r.choice([1, 2, 3, 10])
        mode = r.choice(["F", "A", "M", "M", "M"])
        with_mut = r.random() < 0.5
        L = r.randint(2, Lmax)
        hist, obs, st = gen_history(r, A, cplx, maxn, L, mode, with_mut)
        if not obs or borderline(A, cplx, hist, obs):
            discarded += 1
            continue
        cases.append({"id": len(cases), "A": A, "cplx": cplx, "maxn": maxn, "hist": hist, "out": obs, "model": model, "mode": mode})
        dist["complex" if cplx else "real"] += 1
        dist["square" if A.shape[0] == A.shape[1] else "rect"] += 1
        dist["mode_" + {"F": "F", "A": "A", "M": "mixed"}[mode]] += 1
        dist["with_mutation"] += 1 if st["mut"] else 0
        dist["fed_back_inputs"] += st["fed"]
        dist["near_equal_inputs"] += st["near"]
        dist["calls"] += len(obs)
        dist["hits"] += len(obs) - obs[-1][1]
        dist["evictions"] += max(0, obs[-1][1] - maxn)
        maxn_count[maxn] = maxn_count.get(maxn, 0) + 1
    t_py = time.time() - t0

    # ---- the property, judged on the implementation
    present = {k["trigger"]: True for k in PROPOSED_KNOWN + common.load_known() if k.get("property") == PID and "trigger" in k}
    kn = {k["id"]: k for k in PROPOSED_KNOWN + [k for k in common.load_known() if k.get("property") == PID and "trigger" in k]}
    judged_fail, n_known, seen_min, viol_keys = [], 0, set(), set()
    budget = 80 if tier == "quick" else 400
    for c in cases:
        res = judge(c["A"], c["cplx"], c["maxn"], c["hist"], c["out"])
        if res is None:
            continue
        judged_fail.append(c["id"])
        if len(judged_fail) > budget or len(viol_keys) >= 5:
            continue
        ff = find_failure(c["A"], c["cplx"], c["maxn"], c["hist"], present)
        if ff is None:       # recorded run failed but a fresh run does not: non-determinism
            if "nondet" not in viol_keys:
                viol_keys.add("nondet")
                R.violation("history %d fails the property when recorded but not when re-run" % c["id"],
                            replay_dict(c["A"], c["cplx"], c["maxn"], c["hist"], res[1]))
            continue
        hm, why, trig, known = ff
        if known:
            n_known += 1
            for k in kn.values():
                if k["trigger"] in trig:
                    R.known_finding(k["id"], k["what"])
            key = (tuple(sorted(trig)), len(hm))
            if key not in seen_min and len(seen_min) < 6:
                seen_min.add(key)
                R.notes.append("minimal failing history (%s): %s -> %s" % ("+".join(sorted(trig)), json.dumps(_hist_json(hm)), why))
        else:
            key = why.split(" returned ")[0][:60] if " returned " in why else why[:40]
            key = "".join(ch for ch in key if not ch.isdigit())
            if key not in viol_keys:
                viol_keys.add(key)
                R.violation("MemoizeOperator is not transparent (not explained by a known finding): " + why,
                            replay_dict(c["A"], c["cplx"], c["maxn"], hm, why))

    # ---- correspondence in Coq (plus canary)
    t1 = time.time()
    canary = dict(cases[0])
    canary["id"] = len(cases)
    co = list(canary["out"])
    co[0] = (co[0][0] + 1.0, co[0][1], co[0][2], co[0][3])
    canary["out"] = co
    failing = coq_check(cases + [canary], per=25 if tier == "quick" else 120)
    t_coq = time.time() - t1
    if canary["id"] not in failing:
        raise SystemExit("C16: canary case was not reported by the Coq comparison: pipeline broken")
    failing.pop(canary["id"])
    byid = {c["id"]: c for c in cases}
    reported = 0
    for cid, codes in sorted(failing.items()):
        if reported >= 3 or R.violations:
            break                 # a concrete property failure was already reported above
        c = byid[cid]
        reported += 1
        ff = find_failure(c["A"], c["cplx"], c["maxn"], c["hist"], present)
        if ff is not None and not ff[3]:
            R.violation("MemoizeOperator is not transparent (not explained by a known finding): " + ff[1],
                        replay_dict(c["A"], c["cplx"], c["maxn"], ff[0], ff[1]))
        else:
            R.violation("correspondence broken: pylops.MemoizeOperator no longer behaves like model memo%d (Coq codes %s: 1 value, 2 neval, "
                        "3 len(store), 4 count) on history %d" % (model, codes, cid),
                        dict(replay_dict(c["A"], c["cplx"], c["maxn"], c["hist"], "disagrees with Memoize.run%s" % ("" if model == 1 else "2")),
                             broken="Corr.CheckC16.check%s16 vs State/Memoize.v model memo%d" % ("C" if c["cplx"] else "R", model),
                             recorded=[[_fmt(o[0]), o[1], o[2]] for o in c["out"]]), no_input=True)
    if failing and not reported:
        R.notes.append("correspondence disagreements on %d histories (explained by the violations above)" % len(failing))

    coqchk = None
    if tier == "thorough":
        p = subprocess.run(["timeout", "900", "coqchk", "-silent", "-o", "-Q", "theories", "PV", "PV.State.Memoize"], cwd=common.COQDIR,
                           stdout=subprocess.PIPE, stderr=subprocess.STDOUT, text=True)
        coqchk = "ok, axioms: <none>" if p.returncode == 0 and "Axioms: <none>" in p.stdout else "FAILED"
        if coqchk == "FAILED":
            R.violation("coqchk rejects State/Memoize.vo or reports axioms", {"coqchk": p.stdout[-1500:]}, no_input=True)
    if axioms and not set(axioms) <= common.ALLOWED_AXIOMS:
        R.violation("Props/C16.v depends on unexpected axioms %s" % axioms, {"axioms": axioms}, no_input=True)
    need = {"C16_memo_transparent", "C16_memo_no_reevaluation", "C16_memo_store_bounded", "C16_memo_neval_counts_misses",
            "C16_memo_hit_iff", "C16_memo_mutation_invisible", "C16_legacy_mixed_refuted", "C16_legacy_alias_refuted"}
    if not need <= set(thms):
        R.violation("Props/C16.v lacks theorems %s" % sorted(need - set(thms)), {"missing": sorted(need - set(thms))}, no_input=True)

    def sig(c):
        h = hashlib.sha256()
        h.update(np.asarray(c["A"], dtype=complex).tobytes())
        h.update(str((c["maxn"], c["cplx"])).encode())
        for op in c["hist"]:
            h.update(str(op[:2]).encode())
            h.update(np.asarray(op[2], dtype=complex).tobytes())
        return h.hexdigest()
    nontriv = {sig(c) for c in cases if c["out"] and 0 < c["out"][-1][1] < len(c["out"])}
    R.cov.update(
        obligations=len(thms) + len(cases), discharged=len(thms) + len(cases) - len(failing),
        checker_cmd="make -C coq + coqc State/Memoize.v Corr/CheckC16.v Props/C16.v (Print Assumptions) + coqc .work/C16/c16_*.v "
                    "(vm_compute: recorded run of pylops.MemoizeOperator vs Memoize.run%s on the same history)" % ("" if model == 1 else "2"),
        theorems=thms, axioms_reported=axioms, evaluations=sum(len(c["out"]) for c in cases),
        distinct_nontrivial=len(nontriv),
        rule="random histories (length 2..%d) of matvec/rmatvec/mutate-returned-array over an alphabet of 9 small-integer vectors "
             "(incl. +1e-9 and +1e-3 perturbations) plus outputs of earlier calls fed back, max_neval in {1,2,3,10}, wrapped operator = "
             "non-unitary integer / Gaussian-integer MatrixMult of shapes %s; histories with an allclose decision within a factor 10 of "
             "the tolerance are discarded; evaluations = calls made on MemoizeOperator; non-trivial = distinct (matrix, max_neval, history) "
             "with at least one cache hit and at least one miss" % (Lmax, SHAPES),
        histories=len(cases), discarded_borderline=discarded, distribution=dist, max_neval_counts=maxn_count,
        faithful_model="memo%d" % model, property_failing_histories=len(judged_fail), failing_histories_explained_by_known_triggers=n_known, correspondence_disagreements=len(failing),
        t_python=round(t_py, 1), t_coq=round(t_coq, 1), coqchk=coqchk)
    R.samples = [{"A": [[str(t) for t in row] for row in np.asarray(c["A"])], "max_neval": c["maxn"], "history": _hist_json(c["hist"]),
                  "returned": [_fmt(o[0]) for o in c["out"]], "evaluations": [o[1] for o in c["out"]], "len_store": [o[2] for o in c["out"]]}
                 for c in cases[:2] + cases[2::max(1, len(cases) // 4)][:4]]
    R.assumptions = ["close = np.allclose(stored, query) with numpy defaults rtol=1e-5, atol=1e-8 (executed exactly over Qc; "
                     "generated histories keep every comparison a factor 10 away from the tolerance)",
                     "caller mutation is modelled for arrays obtained through matvec/rmatvec (reshape views of the stored arrays)"]
    return R.finish()
