"""C16 — MemoizeOperator is transparent.

Model: State/Memoize.v.  memo2 = THE model of the current code (direction-
tagged store entries searched by np.allclose, oldest entry dropped, copies
returned; a caller's in-place write to a returned array is the history
operation Mut k w and cannot reach the store).  memo1 = legacy model of the
code before the fix (one shared store, stored arrays returned without copy),
kept for documentation only.  Theorems in Props/C16.v.

Histories are programs of a caller that owns array OBJECTS: alphabet arrays
(persistent objects passed again and again, a COMMON alphabet for both
directions when the operator is square), fresh copies, and the arrays
returned by earlier calls (fed back as the same object or as a copy); the
caller may overwrite in place any array it holds (returned earlier -> Mut,
passed as input earlier -> MutIn) between calls.
Correspondence: random such histories (nearly-equal vectors included) are run on the real
pylops.MemoizeOperator wrapped around a counting operator; returned values,
number of evaluations of the wrapped operator and len(store) after every
call are compared INSIDE Coq with memo2 executed on the same history.

Property judged on the implementation directly: every call must return
what the bare operator returns for that input (within the closeness used to
match stored inputs), len(store) <= max_neval, at most one evaluation per
call and none for an immediately repeated input.  Failing histories are
delta-debugged to minimal ones and reported as violations with a replay; in
particular the two canonical probes (mixed-direction lookup, aliasing of a
returned array) are run first: if the legacy behaviour ever reappears that is
a VIOLATION, not a known finding."""
import hashlib
import json
import os
import subprocess
import time

import numpy as np

from . import common

PID = "C16"
HARNESS_VERSION = 5
MYFILES = ["State/Memoize.v", "Corr/CheckC16.v"]

# No known findings: both historical defects (shared store, aliasing of returned
# arrays) were repaired in /repo; their reappearance is a violation.  Entries of
# known_findings.json for C16 carrying a "trigger" ('mixed' / 'mutation') would
# still be honoured.
PROPOSED_KNOWN = []

RTOL, ATOL = 1e-5, 1e-8          # numpy defaults used by np.allclose(stored, x)


# ------------------------------------------------------------------ coq files
def ensure_compiled():
    """Until integrated in _CoqProject: compile this property's own .v files
    when their .vo is missing or older than the source / an earlier file."""
    th = os.path.join(common.COQDIR, "theories")
    newest = 0.0
    for f in MYFILES:
        src = os.path.join(th, f)
        vo = src[:-2] + ".vo"
        newest = max(newest, os.path.getmtime(src))
        if not os.path.exists(vo) or os.path.getmtime(vo) < newest:
            p = subprocess.run(["timeout", "600", "coqc", "-Q", "theories", "PV", "theories/" + f], cwd=common.COQDIR,
                               stdout=subprocess.PIPE, stderr=subprocess.STDOUT, text=True)
            if p.returncode != 0:
                raise SystemExit("coqc %s failed:\n%s" % (f, p.stdout[-3000:]))
            newest = max(newest, os.path.getmtime(vo))
    bad = subprocess.run("grep -nE '\\b(Admitted|admit|Axiom|Parameter|Conjecture)\\b' %s theories/Props/C16.v | grep -v '(\\*' || true"
                         % " ".join("theories/" + f for f in MYFILES), shell=True, cwd=common.COQDIR,
                         stdout=subprocess.PIPE, text=True).stdout.strip()
    if bad:
        raise SystemExit("forbidden declaration:\n" + bad)


# ------------------------------------------------------------------ implementation runs
# History operations (the caller's program):
#   ("c", d, inn, out, lit)  call matvec (d="F") / rmatvec (d="A") with the caller's array named `inn`
#                            as input (the OBJECT itself is passed); the returned array is named `out`;
#                            lit is None (array exists already) or the content of a new array created now
#   ("w", name, content)     the caller overwrites array `name` in place
def _pylops():
    import pylops
    return pylops


def opdtype(A, cplx):
    """dtype of the wrapped operator: A's own dtype when it is a float/complex array (a REAL
    operator may be driven with COMPLEX vectors: then cplx is True and A.dtype is real),
    else float64 / complex128 according to the representation flag."""
    dt = getattr(A, "dtype", None)
    if dt is not None and dt.kind in "fc":
        return dt
    return np.dtype(np.complex128 if cplx else np.float64)


def build(A, cplx, maxn):
    """MemoizeOperator around a counting wrapper around MatrixMult(A)."""
    pylops = _pylops()
    dt = opdtype(A, cplx)          # operator dtype (float32 / float64 / complex128); independent of the inputs' dtypes
    base = pylops.MatrixMult(np.asarray(A, dtype=dt), dtype=dt)

    class Counting(pylops.LinearOperator):
        def __init__(self, Op):
            self.inner = Op
            self.count = 0
            super().__init__(dtype=Op.dtype, shape=Op.shape)

        def _matvec(self, x):
            self.count += 1
            return self.inner._matvec(x)

        def _rmatvec(self, y):
            self.count += 1
            return self.inner._rmatvec(y)

    C = Counting(base)
    M = pylops.MemoizeOperator(C, max_neval=maxn)
    return M, C, base


def bare(A, cplx, d, v):
    A = np.asarray(A, dtype=np.complex128 if cplx else np.float64)
    return A @ v if d == "F" else A.conj().T @ v


class Runner:
    """Executes a history on a fresh MemoizeOperator; records per call
    (returned value copy, evaluations so far, len(store), neval attribute, input content, direction)
    and the history in the vocabulary of the Coq model (Call / Mut / MutIn)."""

    def __init__(self, A, cplx, maxn):
        self.M, self.C, _ = build(A, cplx, maxn)
        self.A, self.cplx, self.maxn = A, cplx, maxn
        self.dt = np.complex128 if cplx else np.float64
        self.shape = np.asarray(A).shape
        self.pool, self.obs, self.coq = {}, [], []
        self.ret_of, self.first_in = {}, {}
        self.done = []                       # operations actually executed (dangling ones are skipped)

    def step(self, op):
        if op[0] == "c":
            _, d, inn, out, lit = op
            if lit is not None:
                self.pool[inn] = np.array(lit) if isinstance(lit, np.ndarray) and lit.dtype.kind in "fc" else np.array(lit, dtype=self.dt)
            if inn not in self.pool or self.pool[inn].shape != ((self.shape[1],) if d == "F" else (self.shape[0],)):
                return False
            vin = self.pool[inn].copy()
            r = self.M.matvec(self.pool[inn]) if d == "F" else self.M.rmatvec(self.pool[inn])
            k = len(self.obs)
            self.pool[out] = r
            self.ret_of[out] = k
            if inn not in self.ret_of:
                self.first_in.setdefault(inn, k)
            self.obs.append((np.array(r, dtype=self.dt, copy=True), self.C.count, len(self.M.store),
                             getattr(self.M, "neval", None), vin, d))
            self.coq.append(("Call", d, vin))
        else:
            _, name, w = op
            w = np.array(w, dtype=self.dt)
            if name not in self.pool or self.pool[name].shape != w.shape:
                return False
            if not np.iscomplexobj(self.pool[name]) and np.iscomplexobj(w):
                if np.any(w.imag != 0):
                    return False              # a complex value cannot be written into a real array
                w = w.real
            self.pool[name][...] = w          # in place: the caller writes into an array it holds
            w = np.array(self.pool[name], dtype=self.dt)
            if name in self.ret_of:
                self.coq.append(("Mut", self.ret_of[name], w))
            elif name in self.first_in:
                self.coq.append(("MutIn", self.first_in[name], w))
        self.done.append(op)
        return True


def execute(A, cplx, maxn, hist):
    R = Runner(A, cplx, maxn)
    for op in hist:
        R.step(op)
    return R


def prop_bound(A, cplx, d, v):
    """componentwise bound on |Op x' - Op x| over all x' with allclose(x', x)."""
    A = np.abs(np.asarray(A, dtype=np.complex128 if cplx else np.float64))
    t = ATOL + RTOL * np.abs(v)
    return (A @ t if d == "F" else A.T @ t) * 1.5 + 1e-9


def explained(A, cplx, d, v, r):
    """Is r = Op x' for SOME x' element-wise close to v (|x'_j - v_j| <= atol + rtol |v_j|)?
    Necessary conditions only (never a false alarm): (1) the componentwise bound, (2) feasibility
    of (Op diag(t)) z = r - Op v with z in the box [-1,1]^n (for complex entries: the box that
    contains the disc), decided by bounded least squares; r - Op v is formed in floating point
    (exact for the integer data used here)."""
    Mx = np.asarray(A, dtype=np.complex128 if cplx else np.float64)
    Mx = Mx if d == "F" else Mx.conj().T
    e = Mx @ v
    rhs = r - e
    scale = np.abs(Mx).max(initial=0) * np.abs(v).max(initial=0) * max(1, len(v))
    slack = 1e-9 + 1e-12 * scale
    if np.abs(rhs).max(initial=0) <= slack:
        return True
    if not np.all(np.abs(rhs) <= prop_bound(A, cplx, d, v)):
        return False
    from scipy.optimize import lsq_linear
    t = 1.5 * (ATOL + RTOL * np.abs(v))
    Mt = Mx * t[None, :]
    if cplx:
        Mr = np.block([[Mt.real, -Mt.imag], [Mt.imag, Mt.real]])
        b = np.concatenate([rhs.real, rhs.imag])
    else:
        Mr, b = Mt, rhs
    sol = lsq_linear(Mr, b, bounds=(-1.0, 1.0), method="bvls", tol=1e-14, max_iter=500)
    res = np.abs(Mr @ sol.x - b).max(initial=0)
    return bool(res <= 10 * slack + 1e-7 * np.abs(b).max(initial=0))


def judge(A, cplx, maxn, hist, run=None):
    """The property on the implementation.  Returns None or (call index, reason)."""
    if run is None:
        run = execute(A, cplx, maxn, hist)
    prev_count, prev, j = 0, None, 0
    for op in run.done:
        if op[0] != "c":
            prev = None
            continue
        r, cnt, ln, attr, v, d = run.obs[j]
        e = bare(A, cplx, d, v)
        if r.shape != e.shape or not explained(A, cplx, d, v, r):
            return (j, "call %d (%s of %s) returned %s, the bare operator gives %s"
                    % (j, "matvec" if d == "F" else "rmatvec", _fmt(v), _fmt(r), _fmt(e)))
        if ln > maxn:
            return (j, "len(store) = %d exceeds max_neval = %d after call %d" % (ln, maxn, j))
        if cnt - prev_count > 1:
            return (j, "call %d evaluated the wrapped operator %d times" % (j, cnt - prev_count))
        if prev is not None and prev[0] == d and np.array_equal(prev[1], v) and cnt != prev_count:
            return (j, "call %d repeats the input of call %d but evaluated the wrapped operator again" % (j, j - 1))
        if attr is not None and attr != cnt:
            return (j, "neval attribute = %s but the wrapped operator was evaluated %d times" % (attr, cnt))
        prev_count, prev = cnt, (d, v)
        j += 1
    return None


def _fmt(v):
    return "[" + ", ".join(("%.12g%+.12gj" % (t.real, t.imag)) if np.iscomplexobj(v) else ("%.12g" % t) for t in np.ravel(v)) + "]"


def normalise(hist):
    """Drop operations that refer to arrays which do not exist (any more)."""
    have, out = set(), []
    for op in hist:
        if op[0] == "c":
            if op[4] is None and op[2] not in have:
                continue
            have.add(op[2]); have.add(op[3])
            out.append(op)
        elif op[1] in have:
            out.append(op)
    return out


def remove_ops(hist, drop):
    return normalise([op for i, op in enumerate(hist) if i not in drop])


def ddmin(A, cplx, maxn, hist, fails):
    """Delta debugging on the operation list (granularity down to single operations)."""
    hist = normalise(hist)
    assert fails(hist)
    n = 2
    while len(hist) >= 2:
        size = max(1, len(hist) // n)
        chunks = [set(range(i, min(i + size, len(hist)))) for i in range(0, len(hist), size)]
        reduced = False
        for ch in chunks:
            cand = remove_ops(hist, ch)
            if cand and len(cand) < len(hist) and fails(cand):
                hist, n, reduced = cand, max(n - 1, 2), True
                break
        if not reduced:
            if size == 1:
                break
            n = min(len(hist), n * 2)
    return hist


def simplify(A, cplx, maxn, hist, fails):
    """After ddmin: inline inputs that are used once as fresh arrays, then rename arrays canonically."""
    # an input array referenced by exactly one call and never written: make it a fresh literal (already is if lit)
    names, k_in, k_out = {}, 0, 0
    for op in hist:
        if op[0] == "c":
            if op[2] not in names:
                names[op[2]] = "in%d" % k_in
                k_in += 1
            names[op[3]] = "out%d" % k_out
            k_out += 1
    ren = []
    for op in hist:
        if op[0] == "c":
            ren.append(("c", op[1], names[op[2]], names[op[3]], op[4]))
        else:
            ren.append(("w", names.get(op[1], op[1]), op[2]))
    return ren if fails(ren) else hist


def find_failure(A, cplx, maxn, hist):
    """Minimal failing history of the property on the implementation, or None."""
    fails = lambda h: judge(A, cplx, maxn, h) is not None
    if not fails(normalise(hist)):
        return None
    hm = simplify(A, cplx, maxn, ddmin(A, cplx, maxn, hist, fails), fails)
    return hm, judge(A, cplx, maxn, hm)[1]


# ------------------------------------------------------------------ probes (behavioural)
PROBE_A = [[1, 2], [3, 4], [0, 1]]
PROBE_SQ = [[1, 2], [3, 4]]
PROBE_SQC = [[1, 1j], [2, 1]]
PROBES = [
    ("mixed-direction lookup (rmatvec y; matvec Op^H y)", PROBE_A, False,
     [("c", "A", "in0", "out0", [1, 2, 3]), ("c", "F", "in1", "out1", [7, 13])]),
    ("aliasing of a returned array (hit; caller overwrites the returned array; same call again)", PROBE_A, False,
     [("c", "F", "in0", "out0", [1, 1]), ("c", "F", "in1", "out1", [1, 1]), ("w", "out1", [103, 107, 101]),
      ("c", "F", "in2", "out2", [1, 1])]),
    ("aliasing of an input array (matvec x; caller rewrites x in place; matvec x with the same object)", PROBE_A, False,
     [("c", "F", "in0", "out0", [1, 1]), ("w", "in0", [2, 5]), ("c", "F", "in0", "out1", None)]),
    ("aliasing of an input array, adjoint (rmatvec y; caller rewrites y in place; rmatvec y)", PROBE_A, False,
     [("c", "A", "in0", "out0", [1, 2, 3]), ("w", "in0", [0, 1, 1]), ("c", "A", "in0", "out1", None)]),
    ("returned array fed back, updated in place, fed back again (x = rmatvec y; matvec x; x *= 3; matvec x)", PROBE_A, False,
     [("c", "A", "in0", "out0", [1, 2, 3]), ("c", "F", "out0", "out1", None), ("w", "out0", [20, 39]),
      ("c", "F", "out0", "out2", None)]),
    ("square operator: same vector as model then as data (matvec v; rmatvec v)", PROBE_SQ, False,
     [("c", "F", "in0", "out0", [1, 1]), ("c", "A", "in1", "out1", [1, 1])]),
    ("square operator: same vector as data then as model (rmatvec v; matvec v)", PROBE_SQ, False,
     [("c", "A", "in0", "out0", [1, 1]), ("c", "F", "in1", "out1", [1, 1])]),
    ("square complex operator: same vector as model then as data", PROBE_SQC, True,
     [("c", "F", "in0", "out0", [1, 1j]), ("c", "A", "in1", "out1", [1, 1j])]),
    ("large dynamic range: inputs equal in a dominant entry, 100% apart in a small one (matvec [2^24,1]; matvec [2^24,2])", PROBE_A, False,
     [("c", "F", "in0", "out0", [2 ** 24, 1]), ("c", "F", "in1", "out1", [2 ** 24, 2])]),
    ("large dynamic range, adjoint (rmatvec [2^24,1,0]; rmatvec [2^24,2,0])", PROBE_A, False,
     [("c", "A", "in0", "out0", [2 ** 24, 1, 0]), ("c", "A", "in1", "out1", [2 ** 24, 2, 0])]),
    ("large dynamic range, complex (matvec [2^27 i, 1]; matvec [2^27 i, 1+i])", PROBE_SQC, True,
     [("c", "F", "in0", "out0", [2 ** 27 * 1j, 1]), ("c", "F", "in1", "out1", [2 ** 27 * 1j, 1 + 1j])]),
    ("real operator, complex input z then its real part as float64 then z again", np.array(PROBE_A, dtype=np.float64), True,
     [("c", "F", "in0", "out0", np.array([1 + 2j, 3 - 1j])), ("c", "F", "in1", "out1", np.array([1.0, 3.0])),
      ("c", "F", "in2", "out2", np.array([1 + 2j, 3 - 1j]))]),
    ("real operator, complex input z then its real part as complex128", np.array(PROBE_A, dtype=np.float64), True,
     [("c", "F", "in0", "out0", np.array([1 + 2j, 3 - 1j])), ("c", "F", "in1", "out1", np.array([1 + 0j, 3 + 0j]))]),
    ("real operator, two complex inputs with the same real part", np.array(PROBE_A, dtype=np.float64), True,
     [("c", "F", "in0", "out0", np.array([1 + 2j, 3 - 1j])), ("c", "F", "in1", "out1", np.array([1 - 1j, 3 + 2j]))]),
    ("real operator, adjoint: complex y, Re y as float64, y again", np.array(PROBE_A, dtype=np.float64), True,
     [("c", "A", "in0", "out0", np.array([1 + 1j, 2, 3j])), ("c", "A", "in1", "out1", np.array([1.0, 2.0, 0.0])),
      ("c", "A", "in2", "out2", np.array([1 + 1j, 2, 3j]))]),
    ("float32 operator, complex input then its real part (both directions)", np.array(PROBE_A, dtype=np.float32), True,
     [("c", "F", "in0", "out0", np.array([2 - 1j, 1j])), ("c", "F", "in1", "out1", np.array([2.0, 0.0])),
      ("c", "A", "in2", "out2", np.array([1j, 1 + 1j, 2])), ("c", "A", "in3", "out3", np.array([0.0, 1.0, 2.0]))]),
    ("float32 operator, float64 input beyond the float32 range passed twice (second call must be a hit)",
     np.array(PROBE_A, dtype=np.float32), False,
     [("c", "F", "in0", "out0", np.array([2.0 ** 130, 1.0])), ("c", "F", "in1", "out1", np.array([2.0 ** 130, 1.0]))]),
    ("large dynamic range, complex adjoint", PROBE_SQC, True,
     [("c", "A", "in0", "out0", [1j, 2 ** 27]), ("c", "A", "in1", "out1", [2j, 2 ** 27])]),
]


# ------------------------------------------------------------------ generation
SHAPES = [(2, 2), (3, 3), (2, 2), (3, 2), (2, 3), (4, 2), (2, 4), (4, 3), (1, 2), (3, 1)]


def gen_matrix(r, cplx):
    while True:
        m, n = r.choice(SHAPES)
        A = np.array([[r.randint(-2, 2) + (1j * r.randint(-2, 2) if cplx else 0) for _ in range(n)] for _ in range(m)])
        if not np.any(A):
            continue
        G = A.conj().T @ A
        H = A @ A.conj().T
        if np.allclose(G, np.eye(n)) or np.allclose(H, np.eye(m)):      # must not be (semi-)unitary
            continue
        if m == n and np.allclose(A, A.conj().T):                       # square: forward and adjoint must differ
            continue
        return A


def _ivec(r, n, cplx, lo=-3, hi=3):
    while True:
        v = [r.randint(lo, hi) + (1j * r.randint(lo, hi) if cplx else 0) for _ in range(n)]
        if any(v):
            return np.array(v, dtype=np.complex128 if cplx else np.float64)


def gen_history(r, A, cplx, maxn, L, mode, with_mut, dyn=False, cin=False):
    """Generate a caller program while running it (inputs may be arrays returned earlier).
    Returns (history, stats)."""
    m, n = A.shape
    dt = np.complex128 if cplx else np.float64
    square = m == n

    def pert(v, eps):
        p = np.array([(1 if r.random() < 0.7 else 0) for _ in v], dtype=dt)
        if not p.any():
            p[0] = 1
        if cplx and r.random() < 0.5:
            p = p * 1j
        return v + eps * p
    def dynpair(k):
        """two vectors equal in one dominant entry (2^24..2^30), 100% apart in one small entry:
        element-wise clearly NOT close, although |difference| << rtol * |vector| in norm."""
        v = _ivec(r, k, cplx)
        pb = r.randrange(k)
        ps = r.choice([j for j in range(k) if j != pb])
        big = float(2 ** r.choice([24, 27, 30])) * r.choice([1, -1])
        v[pb] = big * (r.choice([1, 1j, 1 + 1j]) if cplx else 1)
        v[ps] = r.choice([1, -1, 1j, 2]) if cplx else r.choice([1, -1, 2])
        w = v.copy()
        w[ps] = 2 * v[ps] if r.random() < 0.7 else 0
        return v, w

    def alphabet(k, tag):
        if cin:
            # REAL operator driven with complex vectors: z, Re z (float64), Re z (complex128, zero imaginary part),
            # z' with the same real part and another imaginary part, and an unrelated complex vector
            while True:
                z = _ivec(r, k, True)
                if np.any(z.real) and np.any(z.imag):
                    break
            while True:
                z2 = z.real + 1j * _ivec(r, k, False)
                if np.any(z2 != z):
                    break
            return {tag + "a": z, tag + "b": z.real.copy(), tag + "c": z.real.astype(np.complex128), tag + "d": z2,
                    tag + "e": _ivec(r, k, True)}
        if dyn and k >= 2:
            v1, w1 = dynpair(k)
            v2, w2 = dynpair(k)
            return {tag + "a": v1, tag + "b": w1, tag + "c": v2, tag + "d": w2, tag + "e": _ivec(r, k, cplx)}
        x1, x2 = _ivec(r, k, cplx), _ivec(r, k, cplx)
        return {tag + "a": x1, tag + "b": x2, tag + "c": pert(x1, 1e-9), tag + "d": pert(x1, 1e-3), tag + "e": pert(x2, 1e-9)}
    base = alphabet(n, "x")
    if square:
        alpha = {"F": sorted(base), "A": sorted(base)}          # COMMON alphabet: the same vectors as model and as data
    else:
        ya = alphabet(m, "y")
        base.update(ya)
        alpha = {"F": sorted(k for k in base if k[0] == "x"), "A": sorted(ya)}
    lim_feed, lim_write = (1e13, 1e14) if dyn else (1e4, 1e6)
    run = Runner(A, cplx, maxn)
    hist = []
    st = {"fed": 0, "fed_same_object": 0, "near": 0, "w_ret": 0, "w_in": 0, "reused_objects": 0, "both_spaces": 0}
    used = {}                   # alphabet name -> set of directions it was used in
    ntmp = 0
    steps = 0
    while steps < L:
        steps += 1
        if with_mut and run.pool and r.random() < 0.28:
            names = sorted(run.pool)
            name = r.choice(names)
            if r.random() < 0.5:         # bias to recently used arrays
                last = [op for op in hist if op[0] == "c"][-1]
                name = r.choice([last[2], last[3]])
            cur = run.pool[name].copy()
            kind = r.choice(["add", "scale", "set", "zero", "alpha", "step"])
            if kind == "add":
                w = cur.copy(); w[r.randrange(len(w))] += r.choice([1, -2, 100])
            elif kind == "scale":
                w = cur * r.choice([2, -1, 3])
            elif kind == "set":
                w = _ivec(r, len(cur), bool(np.iscomplexobj(cur)), -9, 9)
            elif kind == "alpha":
                c = [b for b in base.values() if len(b) == len(cur)]
                w = r.choice(c).copy()
            elif kind == "step":
                w = cur * 3; w[0] -= 1
            else:
                w = np.zeros_like(cur)
            if np.abs(w).max(initial=0) > lim_write:
                continue
            op = ("w", name, w.copy())
            if run.step(op):
                hist.append(op)
                st["w_ret" if name in run.ret_of else "w_in"] += 1
            continue
        d = mode if mode in ("F", "A") else r.choice(["F", "A"])
        need = n if d == "F" else m
        op = None
        if r.random() < 0.35:
            cands = [nm for nm, k in run.ret_of.items() if run.pool[nm].shape == (need,) and np.abs(run.pool[nm]).max(initial=0) < lim_feed]
            if cands:
                nm = r.choice(sorted(cands))
                st["fed"] += 1
                if r.random() < 0.6:
                    op = ("c", d, nm, "r%d" % len(run.obs), None)          # the returned OBJECT itself
                    st["fed_same_object"] += 1
                else:
                    ntmp += 1
                    op = ("c", d, "t%d" % ntmp, "r%d" % len(run.obs), run.pool[nm].copy())
        if op is None:
            nm = r.choice(alpha[d])
            if nm[1] in "cde":
                st["near"] += 1
            used.setdefault(nm, set()).add(d)
            if r.random() < 0.7:
                if nm in run.pool:
                    op = ("c", d, nm, "r%d" % len(run.obs), None)          # persistent caller array, same object again
                    st["reused_objects"] += 1
                else:
                    op = ("c", d, nm, "r%d" % len(run.obs), base[nm].copy())
            else:
                ntmp += 1
                op = ("c", d, "t%d" % ntmp, "r%d" % len(run.obs), base[nm].copy())
        if run.step(op):
            hist.append(op)
    st["both_spaces"] = sum(1 for v in used.values() if len(v) == 2)
    return hist, st


def borderline(A, cplx, run):
    """True if some allclose decision between two vectors that can meet in the
    store would flip when both tolerances are scaled by 10 or 1/10."""
    vecs = []
    for o in run.obs:
        vecs += [o[4], o[0], bare(A, cplx, o[5], o[4])]
    vecs += [c[2] for c in run.coq if c[0] != "Call"]
    groups = {}
    for v in vecs:
        groups.setdefault(v.shape, []).append(np.asarray(v, dtype=complex))
    for g in groups.values():
        Vs = np.array(g)
        D = np.abs(Vs[:, None, :] - Vs[None, :, :])          # D[i, j] = |v_i - v_j|, tolerance from v_j
        T = ATOL + RTOL * np.abs(Vs[None, :, :])
        if np.any(np.all(D <= 10.0 * T, axis=2) != np.all(D <= 0.1 * T, axis=2)):
            return True
    return False


# ------------------------------------------------------------------ literals
def _vl(v, cplx):
    return common.vlit([complex(t) for t in v] if cplx else [float(np.real(t)) for t in v], cplx)


def case_lit(c):
    cplx = c["cplx"]
    pre = "c16" if cplx else "r16"
    hl = []
    for op in c["coq"]:
        if op[0] == "Call":
            hl.append("Call %s %s" % ("Fwd" if op[1] == "F" else "Adj", _vl(op[2], cplx)))
        else:
            hl.append("%s %d %s" % (op[0], op[1], _vl(op[2], cplx)))
    ol = ["(%s, %d, %d)" % (_vl(o[0], cplx), o[1], o[2]) for o in c["out"]]
    A = np.asarray(c["A"])
    return ("{| %s_id := %d; %s_model := %d; %s_n := %d; %s_A := %s; %s_maxn := %d;\n   %s_hist := [%s];\n   %s_out := [%s] |}"
            % (pre, c["id"], pre, c["model"], pre, A.shape[1], pre,
               common.mlit([[complex(t) for t in row] for row in A] if cplx else [[float(np.real(t)) for t in row] for row in A], cplx),
               pre, c["maxn"], pre, ";\n     ".join(hl), pre, ";\n     ".join(ol)))


def coq_check(cases, per=25):
    d = common.workdir(PID)
    names = []
    for k, sh in enumerate(common.shard(cases, per)):
        nm = "c16_%03d" % k
        with open(os.path.join(d, nm + ".v"), "w") as f:
            f.write("From Coq Require Import QArith Qcanon ZArith List.\n"
                    "From PV Require Import Check GaussQc Memoize CheckC16.\nImport ListNotations.\n"
                    "Local Close Scope Qc_scope.\nLocal Close Scope Q_scope.\nLocal Open Scope nat_scope.\n")
            f.write("Definition rcases : list caseR16 := [\n%s].\n" % ";\n".join(case_lit(c) for c in sh if not c["cplx"]))
            f.write("Definition ccases : list caseC16 := [\n%s].\n" % ";\n".join(case_lit(c) for c in sh if c["cplx"]))
            f.write("Eval vm_compute in (failing16 rcases ccases).\n")
        names.append(nm)
    outs = common.run_coq_files(d, names)
    failing = {}
    for nm in names:
        failing.update(common.parse_failing(outs[nm]))
    return failing


# ------------------------------------------------------------------ replay
def _hist_json(hist):
    out = []
    for op in hist:
        if op[0] == "c":
            o = {"op": "matvec" if op[1] == "F" else "rmatvec", "input_array": op[2], "returned_array": op[3]}
            if op[4] is not None:
                o["input_is_new_array_with_content"] = [str(complex(t)) for t in op[4]]
                o["dtype"] = str(np.asarray(op[4]).dtype) if np.asarray(op[4]).dtype.kind in "fc" else None
            out.append(o)
        else:
            out.append({"op": "overwrite_in_place", "array": op[1], "content": [str(complex(t)) for t in op[2]]})
    return out


def _hist_from_json(hj, cplx):
    cv = (lambda L: np.array([complex(t) for t in L])) if cplx else (lambda L: np.array([complex(t).real for t in L]))
    out = []
    for o in hj:
        if o["op"] == "overwrite_in_place":
            out.append(("w", o["array"], cv(o["content"])))
        else:
            lit = o.get("input_is_new_array_with_content")
            if lit is not None:
                lit = cv(lit)
                if o.get("dtype"):
                    lit = (lit.real if np.dtype(o["dtype"]).kind == "f" else lit).astype(o["dtype"])
            out.append(("c", "F" if o["op"] == "matvec" else "A", o["input_array"], o["returned_array"], lit))
    return out


def replay_dict(A, cplx, maxn, hist, reason):
    return {"operator": "MemoizeOperator(MatrixMult(A), max_neval)", "A": [[str(complex(t)) for t in row] for row in np.asarray(A)],
            "complex": bool(cplx), "operator_dtype": str(opdtype(A, cplx)), "max_neval": int(maxn), "history": _hist_json(hist), "observed": reason,
            "expected": "every call returns what MatrixMult(A) returns for the content its input has at the time of the call; "
                        "len(store) <= max_neval; no re-evaluation of a repeated input",
            "how": "array names denote caller-held array OBJECTS: the same name passed twice is the same object; "
                   "overwrite_in_place is arr[...] = content"}


def replay(rp):
    if "history" not in rp:
        print("no concrete history recorded (correspondence-only violation): re-run ./check C16 quick")
        return 1
    cplx = rp["complex"]
    A = np.array([[complex(t) for t in row] for row in rp["A"]])
    if not cplx:
        A = A.real
    if rp.get("operator_dtype"):
        odt = np.dtype(rp["operator_dtype"])
        A = (A.real if odt.kind == "f" else A).astype(odt)
    hist = _hist_from_json(rp["history"], cplx)
    res = judge(A, cplx, rp["max_neval"], hist)
    if res is None:
        print("not reproduced")
        return 0
    print("reproduced:", res[1])
    return 1


# ------------------------------------------------------------------ main
def main(tier):
    R = common.Report(PID, tier)
    common.coq_build()
    ensure_compiled()
    thms, axioms = common.props_assumptions(PID)
    t0 = time.time()
    model = 2                      # memo2 is THE model of the current code
    known = [k for k in PROPOSED_KNOWN + common.load_known() if k.get("property") == PID]      # none expected
    cases = []
    nprobe_fail = 0
    for nm, PA, cplx, hp in PROBES:
        A = np.array(PA)
        run = execute(A, cplx, 3, hp)
        pr = judge(A, cplx, 3, hp, run)
        if pr is not None:
            nprobe_fail += 1
            R.violation("MemoizeOperator is not transparent: %s: %s" % (nm, pr[1]), replay_dict(A, cplx, 3, hp, pr[1]))
        cases.append({"id": len(cases), "A": A, "cplx": cplx, "maxn": 3, "hist": hp, "out": run.obs, "coq": run.coq,
                      "model": model, "mode": "M", "run": run})
    nfixed = len(cases)
    R.notes.append("canonical probes (%d: mixed directions, aliasing of returned / input arrays, square operator with a common vector, large dynamic range, real-dtype operator with complex inputs / float32 operator): %s"
                   % (nfixed, "all transparent" if not nprobe_fail else "%d FAILED" % nprobe_fail))

    nh, Lmax = (300, 8) if tier == "quick" else (5000, 20)
    discarded = 0
    dist = {"real": 0, "complex": 0, "square": 0, "rect": 0, "mode_F": 0, "mode_A": 0, "mode_mixed": 0,
            "large_dynamic_range_alphabet": 0, "operator_f64": 0, "operator_c128": 0, "operator_f32": 0,
            "operator_f64_cin": 0, "operator_f32_cin": 0, "with_in_place_writes": 0, "writes_to_returned_arrays": 0, "writes_to_input_arrays": 0,
            "fed_back_inputs": 0, "fed_back_as_same_object": 0, "reused_input_objects": 0, "near_equal_inputs": 0,
            "alphabet_vectors_used_as_model_and_data": 0, "hits": 0, "evictions": 0, "calls": 0}
    maxn_count = {}
    i = 0
    while len(cases) < nh + nfixed:
        r = common.rng(PID, tier, i)
        i += 1
        kind = r.choice(["f64"] * 8 + ["c128"] * 6 + ["f32"] * 2 + ["f64_cin"] * 3 + ["f32_cin"])
        cin = kind.endswith("_cin")                 # real-dtype operator driven with complex (and real) vectors
        cplx = kind == "c128" or cin                # representation of the vectors in the Coq case
        A = gen_matrix(r, kind == "c128")
        A = A.astype({"f64": np.float64, "c128": np.complex128, "f32": np.float32}[kind.split("_")[0]])
        maxn = r.choice([1, 2, 3, 10])
        mode = r.choice(["F", "A", "M", "M", "M"])
        if A.shape[0] == A.shape[1] and mode != "M" and r.random() < 0.5:
            mode = "M"
        with_mut = r.random() < 0.55
        L = r.randint(2, Lmax)
        dyn = (not cin) and r.random() < 0.3
        hist, st = gen_history(r, A, cplx, maxn, L, mode, with_mut, dyn, cin)
        run = execute(A, cplx, maxn, hist)
        if not run.obs or borderline(A, cplx, run):
            discarded += 1
            continue
        obs = run.obs
        cases.append({"id": len(cases), "A": A, "cplx": cplx, "maxn": maxn, "hist": hist, "out": obs, "coq": run.coq,
                      "model": model, "mode": mode, "run": run})
        dist["complex" if cplx else "real"] += 1
        dist["operator_" + kind] += 1
        dist["large_dynamic_range_alphabet"] += 1 if dyn else 0
        dist["square" if A.shape[0] == A.shape[1] else "rect"] += 1
        dist["mode_" + {"F": "F", "A": "A", "M": "mixed"}[mode]] += 1
        dist["with_in_place_writes"] += 1 if (st["w_ret"] + st["w_in"]) else 0
        dist["writes_to_returned_arrays"] += st["w_ret"]
        dist["writes_to_input_arrays"] += st["w_in"]
        dist["fed_back_inputs"] += st["fed"]
        dist["fed_back_as_same_object"] += st["fed_same_object"]
        dist["reused_input_objects"] += st["reused_objects"]
        dist["near_equal_inputs"] += st["near"]
        dist["alphabet_vectors_used_as_model_and_data"] += st["both_spaces"]
        dist["calls"] += len(obs)
        dist["hits"] += len(obs) - obs[-1][1]
        dist["evictions"] += max(0, obs[-1][1] - maxn)
        maxn_count[maxn] = maxn_count.get(maxn, 0) + 1
    t_py = time.time() - t0

    # ---- the property, judged on the implementation
    judged_fail, viol_keys = [], set()
    budget = 60 if tier == "quick" else 300
    for c in cases[nfixed:]:
        res = judge(c["A"], c["cplx"], c["maxn"], c["hist"], c["run"])
        if res is None:
            continue
        judged_fail.append(c["id"])
        if len(judged_fail) > budget or len(viol_keys) >= 4:
            continue
        ff = find_failure(c["A"], c["cplx"], c["maxn"], c["hist"])
        if ff is None:       # recorded run failed but a fresh run does not: non-determinism
            if "nondet" not in viol_keys:
                viol_keys.add("nondet")
                R.violation("history %d fails the property when recorded but not when re-run" % c["id"],
                            replay_dict(c["A"], c["cplx"], c["maxn"], c["hist"], res[1]))
            continue
        hm, why = ff
        key = (len(hm), tuple((op[0], op[1]) if op[0] == "c" else ("w", op[1][:2]) for op in hm),
               "".join(ch for ch in why.split(" returned ")[0][:40] if not ch.isdigit()) if " returned " in why else why[:30])
        if key not in viol_keys:
            viol_keys.add(key)
            R.violation("MemoizeOperator is not transparent: " + why, replay_dict(c["A"], c["cplx"], c["maxn"], hm, why))

    # ---- correspondence in Coq (plus canary)
    t1 = time.time()
    canary = dict(cases[0])
    canary["id"] = len(cases)
    co = list(canary["out"])
    co[0] = (co[0][0] + 1.0,) + tuple(co[0][1:])
    canary["out"] = co
    failing = coq_check(cases + [canary], per=25 if tier == "quick" else 120)
    t_coq = time.time() - t1
    if canary["id"] not in failing:
        raise SystemExit("C16: canary case was not reported by the Coq comparison: pipeline broken")
    failing.pop(canary["id"])
    byid = {c["id"]: c for c in cases}
    reported = 0
    for cid, codes in sorted(failing.items()):
        if reported >= 3 or R.violations:
            break                 # a concrete property failure was already reported above
        c = byid[cid]
        reported += 1
        ff = find_failure(c["A"], c["cplx"], c["maxn"], c["hist"])
        if ff is not None:
            R.violation("MemoizeOperator is not transparent: " + ff[1], replay_dict(c["A"], c["cplx"], c["maxn"], ff[0], ff[1]))
        else:
            R.violation("correspondence broken: pylops.MemoizeOperator no longer behaves like model memo2 (Coq codes %s: 1 value, 2 neval, "
                        "3 len(store), 4 count) on history %d" % (codes, cid),
                        dict(replay_dict(c["A"], c["cplx"], c["maxn"], c["hist"], "disagrees with Memoize.run2"),
                             broken="Corr.CheckC16.check%s16 vs State/Memoize.v model memo2" % ("C" if c["cplx"] else "R"),
                             recorded=[[_fmt(o[0]), o[1], o[2]] for o in c["out"]]), no_input=True)
    if failing and not reported:
        R.notes.append("correspondence disagreements on %d histories (explained by the violations above)" % len(failing))

    coqchk = None
    if tier == "thorough":
        p = subprocess.run(["timeout", "900", "coqchk", "-silent", "-o", "-Q", "theories", "PV", "PV.State.Memoize"], cwd=common.COQDIR,
                           stdout=subprocess.PIPE, stderr=subprocess.STDOUT, text=True)
        coqchk = "ok, axioms: <none>" if p.returncode == 0 and "Axioms: <none>" in p.stdout else "FAILED"
        if coqchk == "FAILED":
            R.violation("coqchk rejects State/Memoize.vo or reports axioms", {"coqchk": p.stdout[-1500:]}, no_input=True)
    if axioms and not set(axioms) <= common.ALLOWED_AXIOMS:
        R.violation("Props/C16.v depends on unexpected axioms %s" % axioms, {"axioms": axioms}, no_input=True)
    need = {"C16_memo_transparent", "C16_memo_no_reevaluation", "C16_memo_store_bounded", "C16_memo_neval_counts_misses",
            "C16_memo_hit_iff", "C16_memo_mutation_invisible", "C16_legacy_mixed_refuted", "C16_legacy_alias_refuted"}
    if not need <= set(thms):
        R.violation("Props/C16.v lacks theorems %s" % sorted(need - set(thms)), {"missing": sorted(need - set(thms))}, no_input=True)

    def sig(c):
        h = hashlib.sha256()
        h.update(np.asarray(c["A"], dtype=complex).tobytes())
        h.update(str((c["maxn"], c["cplx"])).encode())
        for op in c["hist"]:
            h.update(str(op[:4] if op[0] == "c" else op[:2]).encode())
            if op[-1] is not None:
                h.update(np.asarray(op[-1], dtype=complex).tobytes())
        return h.hexdigest()
    nontriv = {sig(c) for c in cases if c["out"] and 0 < c["out"][-1][1] < len(c["out"])}
    R.cov.update(
        obligations=len(thms) + len(cases), discharged=len(thms) + len(cases) - len(failing),
        checker_cmd="make -C coq + coqc State/Memoize.v Corr/CheckC16.v Props/C16.v (Print Assumptions) + coqc .work/C16/c16_*.v "
                    "(vm_compute: recorded run of pylops.MemoizeOperator vs Memoize.run2 on the same history)",
        theorems=thms, axioms_reported=axioms, evaluations=sum(len(c["out"]) for c in cases),
        distinct_nontrivial=len(nontriv),
        rule="%d canonical probes + random caller programs (2..%d operations): matvec / rmatvec whose input is a persistent alphabet array "
             "OBJECT (5-9 small-integer vectors incl. +1e-9 and +1e-3 perturbations; one COMMON alphabet for both directions when the "
             "operator is square), a fresh copy, or an array returned earlier (same object or copy), and in-place overwrites of any "
             "array the caller holds (returned or passed earlier); max_neval in {1,2,3,10}; wrapped operator = non-unitary, "
             "non-self-adjoint integer / Gaussian-integer MatrixMult of dtype float64 / complex128 / float32 and shapes %s; ~13%% of the "
             "histories drive a REAL-dtype operator with complex vectors z, Re z (as float64 and as complex128), z' with the same real part; histories with an allclose decision within a factor "
             "10 of the tolerance are discarded; evaluations = calls made on MemoizeOperator; non-trivial = distinct (matrix, max_neval, "
             "history) with at least one cache hit and at least one miss" % (nfixed, Lmax, sorted(set(SHAPES))),
        histories=len(cases), discarded_borderline=discarded, distribution=dist, max_neval_counts=maxn_count,
        faithful_model="memo2", property_failing_histories=len(judged_fail) + nprobe_fail, correspondence_disagreements=len(failing),
        known_findings_configured=len(known), t_python=round(t_py, 1), t_coq=round(t_coq, 1), coqchk=coqchk)
    R.samples = [{"A": [[str(t) for t in row] for row in np.asarray(c["A"])], "max_neval": c["maxn"], "history": _hist_json(c["hist"]),
                  "returned": [_fmt(o[0]) for o in c["out"]], "evaluations": [o[1] for o in c["out"]], "len_store": [o[2] for o in c["out"]]}
                 for c in cases[:2] + cases[nfixed::max(1, len(cases) // 4)][:4]]
    R.assumptions = ["close = np.allclose(stored, query) with numpy defaults rtol=1e-5, atol=1e-8 (executed exactly over Qc; "
                     "generated histories keep every comparison a factor 10 away from the tolerance)",
                     "the caller reaches arrays only through matvec/rmatvec (inputs passed as objects, outputs as returned)"]
    return R.finish()
