"""C02 — matvec and rmatvec are linear maps.
Model of an operator = multiplication by the matrix extracted from it
(mv A); theorem mv_linear (all x, y, a, b).  Correspondence: implementation
agrees with mv A / mv B on inputs that are NOT unit vectors (random integer
vectors, an exactly formed a*x+b*y, zero), evaluated in Coq."""
import json

import numpy as np

from . import common, l1, oprun, zoo

PID = "C02"


def search(rec, direction):
    """Pure-implementation witness Op(a x + b y) != a Op(x) + b Op(y)."""
    lst = rec["fw" if direction == "forward" else "ad"]
    a, b = lst[-1][1], lst[-1][2]
    vecs = [t for t in lst if not isinstance(t[0], str)]
    n = len(vecs)
    M0 = rec["A"] if direction == "forward" else rec["B"]
    for tag, e, xp, yp in rec.get("probes", {}).get("fw" if direction == "forward" else "ad", []):
        ref = M0 @ xp
        if np.abs(ref - yp).max(initial=0) > 1e-9 * (1 + np.abs(ref).max(initial=0)):
            kind = ("Op(c x) != c Op(x) for c = 2**%d" % e) if tag == "scale" else \
                   "Op(x) evaluated after adjoint calls differs from sum_j x_j Op(e_j) evaluated before them" if tag == "again" else \
                   "Op(x) for a real-dtype x differs from Op(x) for the same x typed complex" if tag == "realdtype" else \
                   "Op(x) differs for the same x given with an integer dtype"
            return {"family": rec["family"], "params": rec["params"], "direction": direction, "kind": kind, "probe": tag, "exp": e,
                    "x": [str(t) for t in xp], "observed": [str(t) for t in yp], "expected": [str(t) for t in ref]}
    nprobe = len(rec.get("probes", {}).get("fw" if direction == "forward" else "ad", []))
    vecs = vecs[:len(vecs) - nprobe]
    n = len(vecs)
    x, fx = vecs[0]
    y, fy = vecs[1]
    nb = 2 if (rec["kind"] == "real" and rec["family"] in zoo.COMPLEX_INPUT_OK and "apply_columns" not in str(rec["params"].get("expr", ""))) else 0    # trailing (Re, Im) pair of the complex-input probe
    z, fz = vecs[n - 2 - nb]
    z0, f0 = vecs[n - 1 - nb]
    if nb:
        (xr, zr), (xi, zi) = vecs[n - 2], vecs[n - 1]
        M_ = rec["A"] if direction == "forward" else rec["B"]
        if max(np.abs(M_ @ xr - zr).max(initial=0), np.abs(M_ @ xi - zi).max(initial=0)) > 1e-9 * (1 + np.abs(zr).max(initial=0) + np.abs(zi).max(initial=0)):
            return {"family": rec["family"], "params": rec["params"], "direction": direction, "kind": "Op(x + i y) != Op(x) + i Op(y)",
                    "x": [str(t) for t in xr], "y": [str(t) for t in xi], "observed_re": [str(t) for t in zr], "observed_im": [str(t) for t in zi]}
    out = {"family": rec["family"], "params": rec["params"], "direction": direction}
    sc = 1 + max(np.abs(fz).max(initial=0), np.abs(fx).max(initial=0), np.abs(fy).max(initial=0))
    if np.abs(f0).max(initial=0) > 1e-9:
        out.update(kind="Op(0) != 0", x=[0] * len(z0), observed=[str(t) for t in f0])
        return out
    if np.abs(fz - (a * fx + b * fy)).max(initial=0) > 1e-9 * sc:
        out.update(kind="Op(a x + b y) != a Op(x) + b Op(y)", a=str(a), b=str(b), x=[str(t) for t in x], y=[str(t) for t in y],
                   defect=float(np.abs(fz - (a * fx + b * fy)).max()))
        return out
    M = rec["A"] if direction == "forward" else rec["B"]
    for (v, fv) in vecs:
        if np.abs(M @ v - fv).max(initial=0) > 1e-9 * (1 + np.abs(fv).max(initial=0)):
            out.update(kind="Op(x) != sum_j x_j Op(e_j)", x=[str(t) for t in v], defect=float(np.abs(M @ v - fv).max()))
            return out
    return None


def replay(rp):
    op = zoo.build(rp["family"], rp["params"])
    W = l1.Wrapped(op)
    f = W.fwd if rp["direction"] == "forward" else W.adj
    n = W.N if rp["direction"] == "forward" else W.M
    cv = lambda L: np.array([complex(t) for t in L])
    if rp.get("probe") == "again":
        x = cv(rp["x"])
        x = x if W.cplx else x.real
        A, B = W.matrices()         # forward columns first, then the adjoint on every unit vector
        r = np.random.RandomState(0)
        for _ in range(3):
            W.adj(r.randint(-3, 4, W.M).astype(float))
        y = W.fwd(x)
        bad = np.abs(A @ x - y).max(initial=0) > 1e-9 * (1 + np.abs(y).max(initial=0))
    elif rp.get("probe") == "realdtype":
        raw = op.matvec if rp["direction"] == "forward" else op.rmatvec
        x = cv(rp["x"]).real
        a, b = np.asarray(raw(x.astype(np.float64))), np.asarray(raw(x.astype(complex)))
        bad = np.abs(a - b).max(initial=0) > 1e-9 * (1 + np.abs(b).max(initial=0))
    elif rp.get("probe") in ("scale", "int64"):
        x = cv(rp["x"])
        x = x if W.cplx else x.real
        if rp["probe"] == "scale":
            bad = np.abs(np.array(f(x * 2.0 ** rp["exp"])) * 2.0 ** (-rp["exp"]) - f(x)).max() > 1e-9 * (1 + np.abs(f(x)).max())
        else:
            raw = op.matvec if rp["direction"] == "forward" else op.rmatvec
            bad = np.abs(np.asarray(raw(x.astype(np.int64)), dtype=float) - np.asarray(raw(x.astype(float)))).max() > 1e-9 * (1 + np.abs(raw(x.astype(float))).max())
    elif rp["kind"].startswith("Op(x + i y)"):
        raw = op.matvec if rp["direction"] == "forward" else op.rmatvec
        x, y = cv(rp["x"]).real, cv(rp["y"]).real
        z = np.asarray(raw(x + 1j * y))
        ref = np.asarray(raw(x)) + 1j * np.asarray(raw(y))
        bad = np.abs(z - ref).max() > 1e-9 * (1 + np.abs(ref).max())
    elif rp["kind"].startswith("Op(0)"):
        bad = np.abs(f(np.zeros(n))).max() > 1e-9
    elif rp["kind"].startswith("Op(a"):
        a, b, x, y = complex(rp["a"]), complex(rp["b"]), cv(rp["x"]), cv(rp["y"])
        if not W.cplx:
            a, b, x, y = a.real, b.real, x.real, y.real
        bad = np.abs(f(a * x + b * y) - (a * f(x) + b * f(y))).max() > 1e-9 * (1 + np.abs(f(x)).max())
    else:
        x = cv(rp["x"])
        if not W.cplx:
            x = x.real
        cols = np.array([f(e) for e in np.eye(n)]).T
        bad = np.abs(cols @ x - f(x)).max() > 1e-9 * (1 + np.abs(f(x)).max())
    print("reproduced" if bad else "not reproduced")
    return 1 if bad else 0


def main(tier):
    R = common.Report(PID, tier)
    common.coq_build()
    thms, axioms = common.props_assumptions(PID)
    res = oprun.run(tier)
    recs, codes = res["recs"], res["codes"]
    nontriv = set()
    evals = 0
    for rec in recs:
        if "error" in rec:
            R.violation("operator raised on a valid configuration: %s %s: %s" % (rec["family"], rec["params"], rec["error"]),
                        {"family": rec["family"], "params": rec["params"], "error": rec["error"], "trace": rec.get("trace")})
            continue
        for lst in (rec["fw"], rec["ad"]):
            for t in lst:
                if not isinstance(t[0], str):
                    evals += 1
                    if np.abs(t[1]).max(initial=0) > 0:
                        nontriv.add((rec["id"], t[0].tobytes()))
        c = codes.get(rec["id"], [])
        for code, direction in ((1, "forward"), (2, "adjoint")):
            if code in c:
                rp = search(rec, direction)
                if rp is None:
                    R.violation("correspondence %s = mv(M_impl) no longer checks for %s %s" % (direction, rec["family"], rec["params"]),
                                {"family": rec["family"], "params": rec["params"], "direction": direction,
                                 "broken": "Corr.Check.checkR/checkC code %d (implementation vs mv of its own matrix)" % code}, no_input=True)
                else:
                    R.violation("%s is not linear: %s for %s %s" % (direction, rp["kind"], rec["family"], rec["params"]), rp)
    # known finding C02-int-input: families that allocate the output with the INPUT's dtype (integer input truncated)
    known = [k for k in common.load_known() if k.get("id") == "C02-int-input"]
    if known:
        seen = set()
        for rec in recs:
            if rec["family"] in zoo.INT_INPUT_BAD and rec["family"] not in seen and "error" not in rec:
                seen.add(rec["family"])
                try:
                    op = zoo.build(rec["family"], rec["params"])
                    xi = np.arange(1, op.shape[1] + 1)
                    yi, yf = np.asarray(op.matvec(xi.astype(np.int64))), np.asarray(op.matvec(xi.astype(float)))
                    differs = yi.shape != yf.shape or np.abs(yi - yf).max(initial=0) > 1e-9 * (1 + np.abs(yf).max(initial=0))
                except Exception:
                    differs = True
                if differs:
                    R.known_finding("C02-int-input", known[0]["what"])
    R.cov.update(
        obligations=len(thms) + 2 * len(recs),
        discharged=len(thms) + sum(2 - len({1, 2} & set(codes.get(r["id"], []))) for r in recs if "error" not in r),
        checker_cmd="make -C coq + coqc Props/C02.v (Print Assumptions) + coqc .work/oprun/cases_*.v (vm_compute: implementation output vs mv of extracted matrix)",
        theorems=thms, axioms_reported=axioms, evaluations=evals, distinct_nontrivial=len(nontriv),
        rule="per zoo configuration and direction: random integer (Gaussian-integer) vectors, one exactly formed a*x+b*y with a,b from {0,1,-1,2,-3,i,1-2i} (complex scalars only for complex-linear operators) and the zero vector; non-trivial = distinct (configuration, input) with non-zero output",
        configurations=len(recs), t_python=round(res["t_python"], 1), t_coq=round(res["t_coq"], 1))
    R.samples = [{"family": r["family"], "params": r["params"], "x": [str(t) for t in r["fw"][0][0][:6]], "Op_x": [str(t) for t in r["fw"][0][1][:6]]}
                 for r in recs[::max(1, len(recs) // 5)] if "error" not in r]
    if axioms and not set(axioms) <= common.ALLOWED_AXIOMS:
        R.violation("Props/C02.v depends on unexpected axioms %s" % axioms, {"axioms": axioms}, no_input=True)
    return R.finish()
