"""Random configuration samplers for the operator zoo.

`tools/gen_zoo_extra.py` draws configurations from these samplers ON THE
UNCHANGED TREE, keeps those that the library accepts and on which every
zoo-based check passes, and freezes them in harness/zoo_extra.json. The
checks then use the frozen list (quick: a seed-dependent subset; thorough:
all), so every configuration is known to be valid: an exception or a
disagreement on one of them is a behaviour change, never an artefact of
random generation at check time."""
import random


def _dims(r, nd=None, lo=2, hi=6):
    nd = nd or r.choice([1, 1, 2, 2, 3])
    return [r.randint(lo, hi) for _ in range(nd)]


def _axis(r, d):
    return r.randrange(-len(d), len(d))


S = {}


def sampler(name):
    def deco(f):
        S[name] = f
        return f
    return deco


@sampler("FirstDerivative")
def _(r):
    d = _dims(r, lo=3, hi=7)
    ax = _axis(r, d)
    kind = r.choice(["forward", "backward", "centered"])
    order = r.choice([3, 5]) if kind == "centered" and d[ax] >= 5 else 3
    return dict(dims=d, axis=ax, sampling=r.choice([0.25, 0.5, 1.0, 2.0, 3.0]), kind=kind, edge=r.random() < 0.5, order=order)


@sampler("SecondDerivative")
def _(r):
    d = _dims(r, lo=3, hi=7)
    return dict(dims=d, axis=_axis(r, d), sampling=r.choice([0.25, 0.5, 1.0, 2.0]), kind=r.choice(["forward", "backward", "centered"]), edge=r.random() < 0.5)


@sampler("Laplacian")
def _(r):
    d = _dims(r, nd=r.choice([2, 3]), lo=3, hi=5)
    k = r.choice([2, len(d)])
    axes = r.sample(range(len(d)), k)
    if r.random() < 0.4:
        axes = [a - len(d) for a in axes]
    return dict(dims=d, axes=axes, weights=[r.choice([1, 2, -1, 0.5]) for _ in axes], sampling=[r.choice([0.5, 1, 2]) for _ in axes],
                edge=r.random() < 0.5, kind=r.choice(["forward", "backward", "centered"]))


@sampler("Gradient")
def _(r):
    d = _dims(r, nd=r.choice([2, 3]), lo=3, hi=5)
    return dict(dims=d, sampling=[r.choice([0.5, 1, 2]) for _ in d], edge=r.random() < 0.5, kind=r.choice(["forward", "backward", "centered"]))


@sampler("FirstDirectionalDerivative")
def _(r):
    d = _dims(r, nd=2, lo=3, hi=5)
    return dict(dims=d, v=r.choice([[0.6, 0.8], [1.0, 0.0], [-0.8, 0.6]]), sampling=[r.choice([0.5, 1, 2]) for _ in d], edge=r.random() < 0.5,
                kind=r.choice(["forward", "backward", "centered"]))


@sampler("CausalIntegration")
def _(r):
    d = _dims(r, lo=2, hi=6)
    return dict(dims=d, axis=_axis(r, d), sampling=r.choice([0.5, 1.0, 2.0]), kind=r.choice(["full", "half", "trapezoidal"]), removefirst=r.random() < 0.5)


@sampler("Pad")
def _(r):
    d = _dims(r, lo=1, hi=4)
    pad = [[r.randint(0, 3), r.randint(0, 3)] for _ in d]
    return dict(dims=d, pad=pad if len(d) > 1 else pad[0])


@sampler("Restriction")
def _(r):
    d = _dims(r, lo=2, hi=6)
    ax = _axis(r, d)
    n = d[ax]
    k = r.randint(1, n)
    iava = [r.randrange(n) for _ in range(k)] if r.random() < 0.3 else r.sample(range(n), k)
    return dict(dims=d, iava=iava, axis=ax, inplace=r.random() < 0.5)


@sampler("Flip")
def _(r):
    d = _dims(r, lo=1, hi=5)
    return dict(dims=d, axis=_axis(r, d))


@sampler("Roll")
def _(r):
    d = _dims(r, lo=2, hi=6)
    return dict(dims=d, axis=_axis(r, d), shift=r.choice([-9, -3, -2, -1, 0, 1, 2, 5, 7, 13]))


@sampler("Symmetrize")
def _(r):
    d = _dims(r, lo=1, hi=5)
    return dict(dims=d, axis=_axis(r, d))


@sampler("Transpose")
def _(r):
    d = _dims(r, nd=r.choice([2, 3, 3]), lo=2, hi=4)
    axes = list(range(len(d)))
    r.shuffle(axes)
    return dict(dims=d, axes=axes)


@sampler("Sum")
def _(r):
    d = _dims(r, nd=r.choice([2, 3]), lo=1, hi=5)
    return dict(dims=d, axis=_axis(r, d))


@sampler("Diagonal")
def _(r):
    d = _dims(r, lo=1, hi=5)
    if r.random() < 0.25:
        return dict(dims=d, full=True, cplx=r.random() < 0.5)
    return dict(dims=d, axis=_axis(r, d), cplx=r.random() < 0.5)


@sampler("Smoothing1D")
def _(r):
    d = _dims(r, lo=5, hi=8)
    return dict(nsmooth=r.choice([3, 5]), dims=d, axis=_axis(r, d))


@sampler("Convolve1D")
def _(r):
    d = _dims(r, lo=3, hi=8)
    ax = _axis(r, d)
    n = d[ax]
    if len(d) == 1 and r.random() < 0.25:
        nh = r.randint(n + 1, n + 5)          # long-filter class
        return dict(dims=d, nh=nh, offset=r.randrange(n), axis=ax, cplx=r.random() < 0.3)
    nh = r.randint(1, n)
    off = r.randrange(nh)
    if off >= n - 1:
        off = max(0, n - 2)
    method = r.choice([None, "direct", "fft"]) if len(d) == 1 else r.choice([None, "fft", "overlapadd"])
    return dict(dims=d, nh=nh, offset=off, axis=ax, method=method, cplx=r.random() < 0.3)


@sampler("Convolve2D")
def _(r):
    d = _dims(r, nd=r.choice([2, 3]), lo=3, hi=5)
    axes = sorted(r.sample(range(len(d)), 2))
    hs = [r.randint(1, d[a]) for a in axes]
    return dict(dims=d, hshape=hs, offset=[r.randrange(h) for h in hs], axes=axes, method=r.choice(["fft", "direct"]), cplx=r.random() < 0.25)


@sampler("Interp")
def _(r):
    d = _dims(r, lo=4, hi=7)
    ax = _axis(r, d)
    n = d[ax]
    kind = r.choice(["nearest", "linear", "linear", "sinc"])
    if kind == "nearest":
        cand = [i + h for i in range(n - 1) for h in (0, 0.25, 0.5, 0.75)]
        pos, seen = [], set()
        for c in r.sample(cand, min(len(cand), r.randint(1, 4))):
            k = round(c)            # round half to even, as numpy
            if k not in seen and k < n:
                seen.add(k)
                pos.append(c)
        return dict(dims=d, iava=pos or [0], axis=ax, kind=kind)
    cand = [i + h for i in range(n - 1) for h in (0, 0.25, 0.5, 0.75)]
    return dict(dims=d, iava=sorted(r.sample(cand, r.randint(1, 4))), axis=ax, kind=kind)


@sampler("FFT")
def _(r):
    d = _dims(r, lo=1, hi=7)
    ax = _axis(r, d)
    n = d[ax]
    real = r.random() < 0.5
    nfft = r.choice([None, n, n + 1, n + 3, max(1, n - 1), max(2, n - 2)])
    sb = r.random() < 0.3
    sa = r.random() < 0.3 and not real
    return dict(dims=d, axis=ax, nfft=nfft, sampling=r.choice([0.5, 1.0, 2.0]), norm=r.choice(["ortho", "none", "1/n"]), real=real,
                ifftshift_before=sb, fftshift_after=sa, engine=r.choice(["numpy", "scipy", "fftw"]))


@sampler("FFT2D")
def _(r):
    d = _dims(r, nd=r.choice([2, 3]), lo=2, hi=5)
    axes = r.sample(range(len(d)), 2)
    real = r.random() < 0.5
    nffts = None if r.random() < 0.4 else [r.choice([d[a], d[a] + 1, d[a] + 2, max(2, d[a] - 1)]) for a in axes]
    sb = [r.random() < 0.3, r.random() < 0.3]
    sa = [r.random() < 0.3, (r.random() < 0.3) and not real]
    return dict(dims=d, axes=axes, nffts=nffts, norm=r.choice(["ortho", "none", "1/n"]), real=real, ifftshift_before=sb, fftshift_after=sa,
                engine=r.choice(["numpy", "scipy"]))


@sampler("FFTND")
def _(r):
    d = _dims(r, nd=3, lo=2, hi=4)
    k = r.choice([2, 3])
    axes = r.sample(range(3), k)
    real = r.random() < 0.5
    nffts = None if r.random() < 0.5 else [r.choice([d[a], d[a] + 1, d[a] + 2]) for a in axes]
    return dict(dims=d, axes=axes, nffts=nffts, norm=r.choice(["ortho", "none", "1/n"]), real=real, engine=r.choice(["numpy", "scipy"]))


@sampler("VStack")
def _(r):
    m = r.randint(1, 4)
    return dict(ns=[r.randint(1, 4) for _ in range(r.randint(2, 4))], m=m, cplx=r.random() < 0.4, nproc=r.choice([1, 1, 2]))


@sampler("HStack")
def _(r):
    return dict(n=r.randint(1, 4), ms=[r.randint(1, 4) for _ in range(r.randint(2, 4))], cplx=r.random() < 0.4, nproc=r.choice([1, 1, 2]))


@sampler("BlockDiag")
def _(r):
    return dict(shapes=[[r.randint(1, 3), r.randint(1, 3)] for _ in range(r.randint(2, 4))], cplx=r.random() < 0.4, nproc=r.choice([1, 1, 2]))


@sampler("Block")
def _(r):
    return dict(ns=[r.randint(1, 3) for _ in range(r.randint(2, 3))], ms=[r.randint(1, 3) for _ in range(r.randint(2, 3))], cplx=r.random() < 0.4,
                nproc=r.choice([1, 1, 2]))


@sampler("Kronecker")
def _(r):
    return dict(s1=[r.randint(1, 3), r.randint(1, 3)], s2=[r.randint(1, 3), r.randint(1, 3)], cplx=r.random() < 0.5)


@sampler("Spread")
def _(r):
    return dict(nx0=r.randint(1, 4), nt0=r.randint(2, 4), nx=r.randint(2, 4), nt=r.randint(4, 7), engine=r.choice(["numpy", "numba"]),
                interp=r.random() < 0.5, cplx=r.random() < 0.3)


@sampler("Radon2D")
def _(r):
    return dict(nt=r.randint(5, 8), nh=r.randint(2, 4), npx=r.randint(2, 4), kind=r.choice(["linear", "parabolic", "hyperbolic"]),
                centeredh=r.random() < 0.5, interp=r.random() < 0.5, onthefly=r.random() < 0.5, engine=r.choice(["numpy", "numba"]))


@sampler("Sliding1D")
def _(r):
    nwin = r.choice([4, 6])
    nover = r.choice([1, 2]) if nwin == 4 else r.choice([2, 3])
    inner = r.choice(["matrix", "matrix", "identity"])
    return dict(nwin=nwin, nover=nover, nwins=r.randint(2, 4), nop=nwin if inner == "identity" else r.randint(2, 4),
                tapertype=r.choice(["hanning", "cosine", None]), savetaper=r.random() < 0.5, inner=inner)


@sampler("Patch2D")
def _(r):
    return dict(nwin=[4, 4], nover=[2, 2], nwins=[r.randint(2, 3), r.randint(2, 3)], nop=[2, 2], tapertype=r.choice(["hanning", "cosine", None]),
                savetaper=r.random() < 0.5)


@sampler("Fredholm1")
def _(r):
    return dict(nsl=r.randint(1, 3), nx=r.randint(2, 3), ny=r.randint(2, 3), nz=r.randint(2, 3), saveGt=r.random() < 0.5, usematmul=r.random() < 0.5,
                cplx=r.random() < 0.5)


@sampler("MDC")
def _(r):
    return dict(nt=r.randint(3, 5), ns=r.randint(2, 3), nr=r.randint(2, 3), nv=r.randint(1, 2), twosided=r.random() < 0.5, usematmul=r.random() < 0.5,
                saveGt=r.random() < 0.5, conj=r.random() < 0.3, fftengine=r.choice(["numpy", "scipy", "fftw"]))


@sampler("NonStationaryConvolve1D")
def _(r):
    n = r.randint(6, 9)
    nh = r.choice([3, 5])
    o, dlt = r.randint(0, 2), r.randint(2, 3)
    ih = [o + k * dlt for k in range(r.randint(2, 3)) if o + k * dlt < n]
    if len(ih) < 2:
        ih = [1, 3]
    return dict(n=n, nh=nh, ih=ih)


@sampler("DWT")
def _(r):
    lvl = r.choice([1, 1, 2])
    n = r.choice([8, 12, 16]) if lvl == 2 else r.choice([6, 7, 8, 10])
    d = [n] if r.random() < 0.6 else [n, r.randint(2, 3)]
    return dict(dims=d, axis=0, wavelet=r.choice(["haar", "db2", "db3", "sym2", "sym3", "coif1", "bior2.2", "rbio2.2", "bior1.3"]), level=lvl)


@sampler("DCT")
def _(r):
    d = _dims(r, lo=2, hi=5)
    axes = None if r.random() < 0.4 else sorted(r.sample(range(len(d)), r.randint(1, len(d))))
    return dict(dims=d, type=r.choice([1, 2, 3, 4]), axes=axes)


@sampler("AVOLinearModelling")
def _(r):
    return dict(nt0=r.randint(2, 4), ntheta=r.randint(1, 4), linearization=r.choice(["akirich", "fatti", "ps"]), spatdims=r.choice([None, [2], [2, 2]]))


@sampler("PoststackLinearModelling")
def _(r):
    nt0 = r.randint(5, 8)
    return dict(nw=r.randint(3, nt0), nt0=nt0, spatdims=r.choice([None, [2], [2, 2]]), explicit=r.random() < 0.5, kind=r.choice(["centered", "forward"]),
                sparse=False)


@sampler("PrestackLinearModelling")
def _(r):
    nt0 = r.randint(4, 6)
    return dict(nw=r.randint(3, nt0), nt0=nt0, ntheta=r.choice([1, 2, 3, nt0]), spatdims=r.choice([None, [2]]), explicit=r.random() < 0.5,
                kind=r.choice(["centered", "forward"]), linearization=r.choice(["akirich", "fatti", "ps"]))


@sampler("Identity")
def _(r):
    n = r.randint(1, 5)
    m = r.choice([None, r.randint(1, 6)])
    return dict(N=n, M=m, inplace=r.random() < 0.5)


@sampler("Zero")
def _(r):
    return dict(N=r.randint(1, 5), M=r.choice([None, r.randint(1, 6)]))


def sample(seed, per_family):
    out = []
    for fam in sorted(S):
        r = random.Random("zoo_random/%s/%s" % (seed, fam))
        for _ in range(per_family):
            out.append((fam, S[fam](r)))
    return out
