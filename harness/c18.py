"""C18 — dottest accepts exactly the adjoint pairs.

Decision: theorems of Props/C18.v (State/DotTest.v) about the model of
pylops.utils.dottest: isclose(xx, yy, rtol, atol) with a = xx = vdot(u, Op^H v),
b = yy = vdot(Op u, v) (real/imaginary split for clinear=False), complexflag
drawing, raiseerror logic.  Correspondence: the REAL dottest is run on
operator pairs (forward A, adjoint an independently chosen B) with numpy's
global RNG seeded; the randn stream is re-derived independently
(RandomState(seed).randn), the vectors the operator is actually applied to are
recorded by a wrapper; A, B, stream, recorded u, v, rtol, atol go to Coq as
exact dyadic rationals; Coq slices the stream per complexflag (model `draw`),
evaluates the tolerance predicate exactly (three-valued, with a 100x float-noise
margin) and compares with the returned value / raised AssertionError."""
import contextlib
import io
import json
import os
import subprocess
import time

import numpy as np

from . import common

PID = "C18"
MYFILES = ["State/DotTest.v", "Corr/CheckC18.v"]
PROPOSED_KNOWN = []          # no genuine defect of dottest found on the unchanged tree

KINDS = {  # kind -> (dtype, real dtype, unit roundoff, complex matrices?, clinear)
    "real64": ("float64", "float64", 2.0 ** -53, False, True),
    "cplx128": ("complex128", "float64", 2.0 ** -53, True, True),
    "real32": ("float32", "float32", 2.0 ** -24, False, True),
    "cplx64": ("complex64", "float32", 2.0 ** -24, True, True),
    "rlin": ("complex128", "float64", 2.0 ** -53, False, False),
}
DGRID = [1e-3, -1e-3, 1e-5, -1e-5, 1e-7, -1e-7, 1e-9, -1e-9]
RGRID = [1e-6, 1e-4, 1e-8]


# ------------------------------------------------------------------ build
def ensure_built():
    """Compile this property's own .v files when their .vo is missing or
    older than the source / a dependency (until they are in _CoqProject)."""
    th = os.path.join(common.COQDIR, "theories")
    newest = 0.0
    for rel in MYFILES:
        src = os.path.join(th, rel)
        vo = src[:-2] + ".vo"
        newest = max(newest, os.path.getmtime(src))
        if not os.path.exists(vo) or os.path.getmtime(vo) < newest:
            p = subprocess.run(["timeout", "600", "coqc", "-Q", "theories", "PV", "theories/" + rel], cwd=common.COQDIR,
                               stdout=subprocess.PIPE, stderr=subprocess.STDOUT, text=True)
            if p.returncode != 0:
                raise SystemExit("coqc %s failed:\n%s" % (rel, p.stdout[-3000:]))
        newest = max(newest, os.path.getmtime(vo))
    bad = subprocess.run("grep -nE '\\b(Admitted|admit|Axiom|Parameter|Conjecture)\\b' %s theories/Props/C18.v || true"
                         % " ".join("theories/" + r for r in MYFILES), shell=True, cwd=common.COQDIR,
                         stdout=subprocess.PIPE, text=True).stdout.strip()
    if bad:
        raise SystemExit("forbidden declaration:\n" + bad)


# ------------------------------------------------------------------ operators
def make_op(c):
    """(recording operator, record list).  Forward uses A, adjoint uses the
    independently chosen B; three construction variants."""
    import pylops
    from pylops import LinearOperator
    dtype, rdt, eps, cplx, clinear = KINDS[c["kind"]]
    A, B = c["A"], c["B"]
    nr, nc = c["nr"], c["nc"]
    if c["kind"] == "rlin":
        FA, FB = pylops.MatrixMult(A, dtype="float64"), pylops.MatrixMult(B, dtype="float64")

        def fwd(x):
            w = FA.matvec(np.concatenate([np.real(x), np.imag(x)]).astype("float64"))
            return w[:nr] + 1j * w[nr:]

        def adj(y):
            w = FB.matvec(np.concatenate([np.real(y), np.imag(y)]).astype("float64"))
            return w[:nc] + 1j * w[nc:]
    elif c["variant"] == "mm":          # genuine pylops operator (exact pairs only)
        MM = pylops.MatrixMult(A, dtype=dtype)
        fwd, adj = MM.matvec, MM.rmatvec
    else:
        FA, FB = pylops.MatrixMult(A, dtype=dtype), pylops.MatrixMult(B, dtype=dtype)
        fwd, adj = FA.matvec, FB.matvec
    rec = []

    def rfwd(x):
        rec.append(("u", np.array(x, copy=True)))
        return fwd(x)

    def radj(y):
        rec.append(("v", np.array(y, copy=True)))
        return adj(y)

    if c["variant"] == "func" and clinear:
        Op = pylops.FunctionOperator(rfwd, radj, nr, nc, dtype=dtype)
    else:
        class PairOp(LinearOperator):
            def __init__(self):
                super().__init__(dtype=np.dtype(dtype), shape=(nr, nc), clinear=clinear)

            def _matvec(self, x):
                return rfwd(x)

            def _rmatvec(self, y):
                return radj(y)
        Op = PairOp()
    return Op, rec


def observe(c):
    """Run the real dottest; fills ret (1 True, 0 False, 2 AssertionError, 3 other), u_rec, v_rec."""
    from pylops.utils import dottest
    Op, rec = make_op(c)
    np.random.seed(c["seed"])
    out = io.StringIO()
    c["err"] = None
    try:
        with contextlib.redirect_stdout(out):
            r = dottest(Op, c["nrarg"], c["ncarg"], rtol=c["rtol"], atol=c["atol"], complexflag=c["cf"],
                        raiseerror=c["raiseerror"], verb=c["verb"])
        if isinstance(r, (bool, np.bool_)):
            c["ret"] = 1 if bool(r) else 0
        else:
            c["ret"], c["err"] = 3, "returned %r" % (r,)
    except AssertionError as e:
        c["ret"], c["err"] = 2, "AssertionError: %s" % e
    except Exception as e:  # noqa
        c["ret"], c["err"] = 3, "%s: %s" % (type(e).__name__, e)
    us = [x for k, x in rec if k == "u"]
    vs = [x for k, x in rec if k == "v"]
    c["u_rec"] = us[0] if us else None
    c["v_rec"] = vs[0] if vs else None
    c["napplied"] = (len(us), len(vs))
    return c


def stream(c):
    """Independent re-derivation of the randn stream dottest consumes."""
    rdt = KINDS[c["kind"]][1]
    return np.random.RandomState(c["seed"]).randn(2 * c["nc"] + 2 * c["nr"]).astype(rdt)


def rederive(c):
    """Python reading of the drawing order (used only by search/replay and
    for choosing atol in the generator; the judged slicing is the Coq `draw`)."""
    s = stream(c).astype("float64")
    nc, nr, cf = c["nc"], c["nr"], c["cf"]
    p = 0
    u = s[p:p + nc].astype(complex); p += nc
    if cf not in (0, 2):
        u = u + 1j * s[p:p + nc]; p += nc
    v = s[p:p + nr].astype(complex); p += nr
    if cf not in (0, 1):
        v = v + 1j * s[p:p + nr]; p += nr
    return u, v


def inner_products(c, u, v):
    """(xx, yy) in float arithmetic, as documented (for generator choices, search and replay)."""
    A, B = c["A"].astype(complex), c["B"].astype(complex)
    if c["kind"] == "rlin":
        su, sv = np.concatenate([u.real, u.imag]), np.concatenate([v.real, v.imag])
        return float(np.dot(su, c["B"] @ sv)), float(np.dot(c["A"] @ su, sv))
    return complex(np.vdot(u, B @ v)), complex(np.vdot(A @ u, v))


# ------------------------------------------------------------------ generation
def gen_cases(tier):
    reps = 1 if tier == "quick" else 10
    cases = []

    def base(g, kind, nr=None, nc=None):
        dtype, rdt, eps, cplx, clinear = KINDS[kind]
        nr = nr or g.randint(1, 5)
        nc = nc or g.randint(1, 5)
        if kind == "rlin":
            A = np.array([[g.randint(-4, 4) for _ in range(2 * nc)] for _ in range(2 * nr)], dtype="float64")
        elif cplx:
            A = np.array([[complex(g.randint(-4, 4), g.randint(-4, 4)) for _ in range(nc)] for _ in range(nr)], dtype=dtype)
        else:
            A = np.array([[g.randint(-4, 4) for _ in range(nc)] for _ in range(nr)], dtype=dtype)
        if not np.any(A):
            A[0, 0] = 3
        return nr, nc, A

    def add(g, fam, kind, A, B, nr, nc, rtol=1e-6, atol=1e-21, cf=None, raiseerror=None, variant=None, nrarg=None,
            ncarg=None, extra=None):
        c = dict(fam=fam, kind=kind, nr=nr, nc=nc, A=A, B=np.ascontiguousarray(B).astype(A.dtype), rtol=float(rtol), atol=float(atol),
                 cf=g.randint(0, 3) if cf is None else cf, raiseerror=bool(g.getrandbits(1)) if raiseerror is None else raiseerror,
                 variant=variant or g.choice(["pair", "func"]), seed=g.randint(0, 2 ** 31 - 1), verb=g.random() < 0.25,
                 nrarg=nrarg, ncarg=ncarg, extra=extra or {})
        cases.append(c)
        return c

    def adjoint(A):
        return A.conj().T

    for rep in range(reps):
        # 1. exact adjoint pairs: every kind x every complexflag x raiseerror both ways
        g = common.rng(PID, "exact", rep)
        for kind in KINDS:
            for cf in range(4):
                for k in range(3):
                    nr, nc, A = base(g, kind)
                    var = "mm" if (k == 2 and kind != "rlin") else None
                    add(g, "exact", kind, A, adjoint(A), nr, nc, rtol=RGRID[k], cf=cf, raiseerror=(cf + k) % 2 == 0, variant=var)
        # 2. mis-scaled adjoints B = (1+d) A^H over the d x rtol grid
        g = common.rng(PID, "scaled", rep)
        for kind in ("real64", "cplx128", "rlin"):
            for d in DGRID:
                for rtol in RGRID:
                    nr, nc, A = base(g, kind)
                    add(g, "scaled", kind, A, (1 + d) * adjoint(A), nr, nc, rtol=rtol, extra={"d": d})
        for kind in ("real32", "cplx64"):
            for d, rtol in ((1e-2, 1e-3), (-1e-2, 1e-3), (1e-1, 1e-2), (1e-3, 1e-1), (-1e-3, 1e-2), (1e-2, 1e-1)):
                nr, nc, A = base(g, kind)
                add(g, "scaled32", kind, A, (1 + d) * adjoint(A), nr, nc, rtol=rtol, extra={"d": d})
        # 3. missing / wrong conjugation, wrong sign
        g = common.rng(PID, "conj", rep)
        for k in range(14):
            kind = ("cplx128", "cplx128", "cplx64")[k % 3]
            nr, nc, A = base(g, kind)
            add(g, "noconj", kind, A, A.T, nr, nc, rtol=g.choice(RGRID), cf=k % 4)
        for k in range(6):
            nr, nc, A = base(g, "rlin")
            Sc = np.diag([1.0] * nc + [-1.0] * nc)
            Sr = np.diag([1.0] * nr + [-1.0] * nr)
            add(g, "conjwrong", "rlin", A, Sc @ A.T @ Sr, nr, nc, rtol=g.choice(RGRID), cf=g.choice([1, 2, 3, 3]))
        for k in range(12):
            kind = ("real64", "cplx128", "rlin", "real32")[k % 4]
            nr, nc, A = base(g, kind)
            add(g, "sign", kind, A, -adjoint(A), nr, nc, rtol=g.choice(RGRID))
        # 4. single-entry errors
        g = common.rng(PID, "entry", rep)
        for k in range(30):
            kind = ("real64", "cplx128", "rlin")[k % 3]
            nr, nc, A = base(g, kind)
            B = adjoint(A).copy()
            delta = (1.0, 1e-2, 1e-5, 1e-8, 1e-11)[(k // 3) % 5]
            j, i = g.randrange(B.shape[0]), g.randrange(B.shape[1])
            B[j, i] += delta
            add(g, "entry", kind, A, B, nr, nc, rtol=g.choice(RGRID), extra={"delta": delta, "at": [j, i]})
        # 5. large scalings against large rtol (separates |yy| from |xx| in the threshold)
        g = common.rng(PID, "bigd", rep)
        for d in (1.0, -0.5, 3.0, -0.75):
            for rtol in (0.7, 0.3, 1.5, 0.0625):
                for kind in ("real64", "cplx128"):
                    nr, nc, A = base(g, kind)
                    add(g, "bigd", kind, A, (1 + d) * adjoint(A), nr, nc, rtol=rtol, atol=g.choice([1e-21, 0.0]), extra={"d": d})
        # 6. atol-driven verdicts: rtol = 0 (or tiny) and atol a factor 8 above / below the defect
        g = common.rng(PID, "atol", rep)
        for k in range(24):
            kind = ("real64", "cplx128", "rlin")[k % 3]
            nr, nc, A = base(g, kind)
            d = g.choice([1e-3, -1e-2, 0.25])
            c = add(g, "atol", kind, A, (1 + d) * adjoint(A), nr, nc, rtol=0.0, extra={"d": d})
            u, v = rederive(c)
            xx, yy = inner_products(c, u, v)
            D = abs(xx - yy)
            if k % 4 < 2:
                c["rtol"], c["atol"] = 0.0, float(D * (8.0 if k % 2 else 0.125))
            else:   # both terms active: atol + rtol*|yy| = (1/2 + 1/2) * f * D
                f = 4.0 if k % 2 else 0.25
                c["atol"] = float(0.5 * f * D)
                c["rtol"] = float(0.5 * f * D / max(abs(yy), 1e-300))
        # 7. deliberately on the threshold (must come back Borderline, never judged)
        g = common.rng(PID, "border", rep)
        for k in range(8):
            kind = ("real64", "cplx128")[k % 2]
            nr, nc, A = base(g, kind)
            rtol = RGRID[k % 3]
            add(g, "border", kind, A, (1 + rtol * (1 if k % 2 else -1)) * adjoint(A), nr, nc, rtol=rtol, atol=0.0, extra={"d": rtol})
        # 8. nr / nc arguments: explicit and matching (judged as usual) ...
        g = common.rng(PID, "shape", rep)
        for k in range(8):
            kind = ("real64", "cplx128")[k % 2]
            nr, nc, A = base(g, kind)
            B = adjoint(A) if k < 4 else 2 * adjoint(A)
            add(g, "shapearg", kind, A, B, nr, nc, nrarg=nr if k % 4 != 1 else None, ncarg=nc if k % 4 != 2 else None)
        # ... and mismatching (the property is silent: recorded, not judged)
        for k in range(8):
            nr, nc, A = base(g, "real64")
            bad = [(nr + 1, nc), (nr, nc + 1), (nc + 7, nr + 7), (nr + 1, None), (None, nc + 2)][k % 5]
            add(g, "mismatch", "real64", A, adjoint(A), nr, nc, nrarg=bad[0], ncarg=bad[1], raiseerror=bool(k % 2))
        # 9. zero operator (xx = yy = 0)
        g = common.rng(PID, "zero", rep)
        for kind in ("real64", "cplx128"):
            nr, nc, A = base(g, kind)
            add(g, "zero", kind, 0 * A, 0 * adjoint(A), nr, nc)
        # 10. operators scaled by exact powers of two (tiny / large entries): the requested atol
        #     (default 1e-21, or 0) is the one applied, whatever the magnitude of xx, yy
        g = common.rng(PID, "pow2", rep)
        for kind, exps in (("real64", (-60, -30, 20)), ("cplx128", (-60, -30, 20)), ("rlin", (-60, 20)),
                           ("real32", (-30, -40)), ("cplx64", (-30, -40))):
            dtype = KINDS[kind][0]
            for e in exps:
                s = 2.0 ** e
                for atol in (1e-21, 0.0):
                    wrongs = [("exact", 1.0), ("scaled", 2.0), ("scaled", 0.0), ("sign", -1.0), ("scaled", 1.0 + 2.0 ** -7)]
                    if KINDS[kind][3]:
                        wrongs.append(("noconj", None))
                    for wf, fac in wrongs:
                        nr, nc, A = base(g, kind)
                        A = (A * s).astype(A.dtype)
                        B = A.T if fac is None else (fac * adjoint(A))
                        add(g, "pow2_" + wf, kind, A, B, nr, nc, rtol=g.choice([1e-6, 1e-4] if "32" not in kind else [1e-3, 1e-2]),
                            atol=atol, extra={"scale": "2^%d" % e, "factor": fac})
    for i, c in enumerate(cases):
        c["id"] = i
    return cases


# ------------------------------------------------------------------ emission
def _g(z):
    return common.glit(complex(z))


def case_literal(c, lid, ret=None):
    dtype, rdt, eps, cplx, clinear = KINDS[c["kind"]]
    rl = c["kind"] == "rlin"
    A, B = c["A"], c["B"]
    em = "[]"
    return ("{| k_id := %d; k_kind := %d; k_cf := %d; k_nr := %d; k_nc := %d; k_eps := %s; k_rtol := %s; k_atol := %s;\n"
            "   k_raise := %s; k_Ac := %s; k_Bc := %s;\n   k_Ar := %s; k_Br := %s;\n   k_stream := %s;\n   k_u := %s; k_v := %s; k_ret := %d |}"
            % (lid, 1 if rl else 0, c["cf"], c["nr"], c["nc"], common.qlit(eps), common.qlit(c["rtol"]), common.qlit(c["atol"]),
               "true" if c["raiseerror"] else "false",
               em if rl else common.mlit(A, True), em if rl else common.mlit(B, True),
               common.mlit(A) if rl else em, common.mlit(B) if rl else em,
               common.vlit([float(x) for x in stream(c)]),
               common.vlit(c["u_rec"], True), common.vlit(c["v_rec"], True), c["ret"] if ret is None else ret))


HEADER = ("From Coq Require Import QArith Qcanon ZArith List.\n"
          "From PV Require Import Dict QcInst GaussQc Check DotTest CheckC18.\nImport ListNotations.\n")


def run_coq(cases, d):
    """cases: list of (case, forced_ret or None). Returns list of code lists."""
    per = max(4, -(-len(cases) // (3 * common.NPROC)))
    shards = common.shard(list(range(len(cases))), per)
    names = []
    for k, idx in enumerate(shards):
        name = "c18_%d" % k
        with open(os.path.join(d, name + ".v"), "w") as f:
            f.write(HEADER + "Definition cases : list case18 := [\n")
            f.write(";\n".join(case_literal(cases[i][0], j, cases[i][1]) for j, i in enumerate(idx)))
            f.write("].\nEval vm_compute in (run18 cases).\n")
        names.append(name)
    outs = common.run_coq_files(d, names)
    res = [[] for _ in cases]
    for k, idx in enumerate(shards):
        fl = common.parse_failing(outs["c18_%d" % k])
        for j, i in enumerate(idx):
            res[i] = fl.get(j, [])
    return res


# ------------------------------------------------------------------ search / replay
def _mat(M):
    return [[[float(np.real(x)), float(np.imag(x))] for x in r] for r in M]


def _unmat(L, dtype):
    return np.array([[complex(a, b) for a, b in r] for r in L]).astype(dtype) if L else np.zeros((0, 0), dtype)


def failing_input(c, what):
    """The drawn (u, v), both inner products, the tolerance predicate and the contradicting outcome."""
    u = c["u_rec"] if c.get("u_rec") is not None else rederive(c)[0]
    v = c["v_rec"] if c.get("v_rec") is not None else rederive(c)[1]
    u, v = np.asarray(u, dtype=complex), np.asarray(v, dtype=complex)
    xx, yy = inner_products(c, u, v)
    D, thr = abs(xx - yy), c["atol"] + c["rtol"] * abs(yy)
    return {"what": what, "kind": c["kind"], "family": c["fam"], "variant": c["variant"], "nr": c["nr"], "nc": c["nc"],
            "A": _mat(c["A"]), "B": _mat(c["B"]), "np_random_seed": c["seed"], "complexflag": c["cf"], "rtol": c["rtol"],
            "atol": c["atol"], "raiseerror": c["raiseerror"], "verb": c["verb"], "nrarg": c["nrarg"], "ncarg": c["ncarg"],
            "u": [str(x) for x in u], "v": [str(x) for x in v], "xx=u^H(Op^H v)": str(xx), "yy=(Op u)^H v": str(yy),
            "abs(xx-yy)": D, "atol+rtol*abs(yy)": thr, "predicate": bool(D <= thr),
            "observed": {1: "returned True", 0: "returned False", 2: "raised AssertionError", 3: "other: %s" % c.get("err")}[c["ret"]],
            "extra": c.get("extra", {})}


def _case_from_replay(rp):
    dtype = KINDS[rp["kind"]][0]
    md = "float64" if rp["kind"] == "rlin" else dtype
    A, B = _unmat(rp["A"], md), _unmat(rp["B"], md)
    return dict(fam=rp["family"], kind=rp["kind"], nr=rp["nr"], nc=rp["nc"], A=A, B=B, rtol=rp["rtol"], atol=rp["atol"], cf=rp["complexflag"],
                raiseerror=rp["raiseerror"], variant=rp["variant"], seed=rp["np_random_seed"], verb=rp.get("verb", False),
                nrarg=rp["nrarg"], ncarg=rp["ncarg"], extra=rp.get("extra", {}))


def judge_py(c):
    """Float re-evaluation used by replay only (judged cases are >= 100x float noise away from the threshold).
    Returns list of problems."""
    probs = []
    if c["u_rec"] is None or c["v_rec"] is None:
        return ["dottest did not apply the operator to any vector (outcome: %s)" % c["ret"]]
    u0, v0 = rederive(c)
    if not (np.array_equal(np.asarray(c["u_rec"], dtype=complex), u0) and np.array_equal(np.asarray(c["v_rec"], dtype=complex), v0)
            and np.iscomplexobj(c["u_rec"]) == (c["cf"] not in (0, 2)) and np.iscomplexobj(c["v_rec"]) == (c["cf"] not in (0, 1))):
        probs.append("vectors applied are not the documented draws for complexflag=%d" % c["cf"])
    xx, yy = inner_products(c, np.asarray(c["u_rec"], dtype=complex), np.asarray(c["v_rec"], dtype=complex))
    pred = abs(xx - yy) <= c["atol"] + c["rtol"] * abs(yy)
    want = 1 if pred else (2 if c["raiseerror"] else 0)
    if c["ret"] != want:
        probs.append("predicate |xx-yy|<=atol+rtol|yy| is %s (|xx-yy|=%.6g, threshold=%.6g) but dottest %s"
                     % (pred, abs(xx - yy), c["atol"] + c["rtol"] * abs(yy),
                        {1: "returned True", 0: "returned False", 2: "raised AssertionError", 3: "did: %s" % c["err"]}[c["ret"]]))
    return probs


def replay(rp):
    if "np_random_seed" not in rp:
        print("nothing to replay (no input recorded):", rp.get("what"))
        return 1
    c = observe(_case_from_replay(rp))
    probs = judge_py(c)
    for p in probs:
        print(p)
    print("reproduced" if probs else "not reproduced")
    return 1 if probs else 0


# ------------------------------------------------------------------ main
def main(tier):
    R = common.Report(PID, tier)
    common.coq_build()
    ensure_built()
    thms, axioms = common.props_assumptions(PID)
    t0 = time.time()
    cases = gen_cases(tier)
    for c in cases:
        observe(c)
    t_py = time.time() - t0
    mism = [c for c in cases if c["fam"] == "mismatch"]
    todo = [c for c in cases if c["fam"] != "mismatch"]
    sendable = []
    for c in todo:
        if c["u_rec"] is None or c["v_rec"] is None or c["u_rec"].shape != (c["nc"],) or c["v_rec"].shape != (c["nr"],) \
                or not (np.all(np.isfinite(c["u_rec"])) and np.all(np.isfinite(c["v_rec"]))):
            R.violation("dottest did not apply the operator to one model and one data vector of the operator's shape: %s"
                        % (c["err"] or "applied %s" % (c["napplied"],)), failing_input(c, "operator not applied to drawn vectors"))
        else:
            sendable.append(c)
    # canary: an exact real pair reported as 'returned False' must be flagged by Coq
    can = dict(next(c for c in sendable if c["fam"] == "exact" and c["kind"] == "real64" and c["rtol"] >= 1e-6))
    t0 = time.time()
    d = common.workdir(PID)
    res = run_coq([(c, None) for c in sendable] + [(can, 0)], d)
    t_coq = time.time() - t0
    if 2 not in res[-1]:
        raise SystemExit("C18 canary not detected: pipeline broken (%r)" % (res[-1],))
    res = res[:-1]
    known = [k for k in common.load_known() if k.get("property") == PID] + PROPOSED_KNOWN
    border = judged = 0
    nontriv = set()
    fam_counts, verdict_counts = {}, {"accept": 0, "reject": 0, "borderline": 0}
    bad = []
    for c, codes in zip(sendable, res):
        fam_counts[c["fam"]] = fam_counts.get(c["fam"], 0) + 1
        c["codes"] = codes
        if 9 in codes:
            border += 1
            verdict_counts["borderline"] += 1
        else:
            judged += 1
            verdict_counts["accept" if (c["ret"] == 1) == (2 not in codes) else "reject"] += 1
            if np.any(c["A"]):
                nontriv.add((c["kind"], c["fam"], c["A"].tobytes(), c["B"].tobytes(), c["seed"], c["cf"], c["rtol"], c["atol"], c["raiseerror"]))
        if set(codes) & {1, 2, 4}:
            bad.append(c)
    bad.sort(key=lambda c: (c["nr"] * c["nc"], c["id"]))       # smallest failing inputs first
    for c in bad[:12]:
        codes = c["codes"]
        if 4 in codes:
            what = "malformed case (harness/model shape disagreement)"
        elif 2 in codes:
            fi = failing_input(c, "")
            what = ("dottest verdict contradicts the tolerance predicate on the vectors it drew: %s %s complexflag=%d rtol=%g atol=%g raiseerror=%s: "
                    "|xx-yy|=%.6g, atol+rtol|yy|=%.6g, %s" % (c["kind"], c["fam"], c["cf"], c["rtol"], c["atol"], c["raiseerror"],
                                                                fi["abs(xx-yy)"], fi["atol+rtol*abs(yy)"], fi["observed"]))
        else:
            what = ("dottest applied the operator to vectors that are not the documented draws (complexflag=%d, seeded global RNG): "
                    "u complex=%s, v complex=%s" % (c["cf"], np.iscomplexobj(c["u_rec"]), np.iscomplexobj(c["v_rec"])))
        R.violation(what, failing_input(c, what))
    if len(bad) > 12:
        R.notes.append("%d further disagreeing cases not listed" % (len(bad) - 12))
    # the border family must be classed Borderline by the model (sanity of the noise margin)
    nb = [c for c in sendable if c["fam"] == "border" and 9 not in c["codes"]]
    if nb:
        R.notes.append("%d on-threshold cases were judged (margin larger than the noise estimate)" % len(nb))
    mism_out = {}
    for c in mism:
        k = {1: "returned True", 0: "returned False", 2: "AssertionError", 3: (c["err"] or "other").split(":")[0]}[c["ret"]]
        mism_out[k] = mism_out.get(k, 0) + 1
    ncorr = len(sendable)
    R.cov.update(
        obligations=len(thms) + ncorr, discharged=len(thms) + ncorr - len(bad),
        checker_cmd="make -C coq (coqc 8.16.1) + coqc State/DotTest.v Corr/CheckC18.v + coqc Props/C18.v (Print Assumptions) + coqc .work/C18/c18_*.v (vm_compute)",
        theorems=thms, axioms_reported=axioms, evaluations=len(cases), distinct_nontrivial=len(nontriv),
        rule="one case = one real dottest call (numpy global RNG seeded) on an operator pair (forward A, independently chosen adjoint B) built on "
             "pylops.MatrixMult via LinearOperator subclass / FunctionOperator / plain MatrixMult; Coq slices the independently re-derived randn "
             "stream per complexflag, compares it with the vectors recorded at the operator, evaluates |xx-yy| <= atol + rtol|yy| exactly "
             "(three-valued, 100x float-noise margin) and compares with return value / AssertionError; non-trivial = A != 0 and verdict judged "
             "(not Borderline), distinct by (kind, family, A, B, seed, complexflag, rtol, atol, raiseerror)",
        judged=judged, borderline_skipped=border, families=fam_counts, verdicts=verdict_counts,
        kinds={k: sum(1 for c in sendable if c["kind"] == k) for k in KINDS},
        complexflags={str(k): sum(1 for c in sendable if c["cf"] == k) for k in range(4)},
        raiseerror={"true": sum(1 for c in sendable if c["raiseerror"]), "false": sum(1 for c in sendable if not c["raiseerror"])},
        outcomes={n: sum(1 for c in sendable if c["ret"] == r) for r, n in ((1, "returned True"), (0, "returned False"), (2, "AssertionError"), (3, "other"))},
        nr_nc_mismatch_not_judged=mism_out, canary="detected", t_python=round(t_py, 1), t_coq=round(t_coq, 1),
        modelled=["dottest (numpy backend): drawing per complexflag, vdot / real-imag split, isclose(xx, yy, rtol, atol), raiseerror"],
        oracle=["numpy RandomState.randn (Mersenne twister + gauss), BLAS dot/matvec rounding (absorbed by the noise margin)"])
    R.samples = [{"family": c["fam"], "kind": c["kind"], "shape": [c["nr"], c["nc"]], "complexflag": c["cf"], "rtol": c["rtol"], "atol": c["atol"],
                  "raiseerror": c["raiseerror"], "variant": c["variant"], "seed": c["seed"], "extra": c["extra"],
                  "outcome": c["ret"], "model": "borderline" if 9 in c.get("codes", []) else "judged"} for c in sendable[::max(1, len(sendable) // 7)]]
    if axioms and not set(axioms) <= common.ALLOWED_AXIOMS:
        R.violation("Props/C18.v depends on unexpected axioms %s" % axioms, {"theorem_file": "Props/C18.v", "axioms": axioms}, no_input=True)
    if tier == "thorough":      # second opinion of the independent checker on the model file
        p = subprocess.run(["timeout", "900", "coqchk", "-silent", "-o", "-Q", "theories", "PV", "-norec", "PV.State.DotTest"],
                           cwd=common.COQDIR, stdout=subprocess.PIPE, stderr=subprocess.STDOUT, text=True)
        R.cov["coqchk"] = "ok" if p.returncode == 0 else "FAILED"
        if p.returncode != 0:
            R.violation("coqchk rejects State/DotTest.vo: %s" % p.stdout[-500:], {"theorem_file": "State/DotTest.v"}, no_input=True)
    if not thms:
        R.violation("Props/C18.v has no theorems", {"theorem_file": "Props/C18.v"}, no_input=True)
    return R.finish()
