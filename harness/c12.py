"""C12 — regularised, normal-equation and preconditioned inversions solve the
problem they document.

Model/theorems: coq/theories/Solvers/LeastSquares.v (documented functional J,
its normal equations (N, rhs), the assemblies as the code builds them,
x0 shift, change of variables), final statements in Props/C12.v.

Correspondence = CERTIFICATE CHECKING (Corr/CheckC12.v): for random small dense
problems (integer / Gaussian-integer entries, 0-3 regularisers with data,
weights, epsI (also negative), epsRs, NRegs/epsNRs, x0 in {None, zeros, random}, engines scipy
and pylops, MIXED numpy dtypes of y / dataregs / x0 / operators) the real implementation is run with tight tolerances; Coq computes
N and rhs of the DOCUMENTED problem exactly over Qc / Gaussian Qc and checks
||N x_impl - rhs||_inf <= tol*scale for every returned x, compares
Op_normal.todense(), y_normal, RegOp.todense(), datatot with the model's
assemblies, and checks that coinciding formulations return the same x.
The inner Krylov solvers are oracles (C09 covers pylops' own)."""
import hashlib
import json
import os
import subprocess
import time

import numpy as np

from . import common

PID = "C12"
TOLM = 1e-9       # assembled matrices / data (exact up to rounding)
TOLX = 1e-7       # backward error of returned models
COND_MAX = 1e5
EPS_R = [0.5, 1.0, 1.5, 2.0, 0.25, 3.0]
EPS_I = [0.0, 0.0, 0.5, 1.0, 2.0, 0.25, -1.0, -0.5]
EPS_N = [0.5, 1.0, 2.0]
ENGINES = ("scipy", "pylops")
X0KINDS = ("none", "zeros", "random")
CANARY_ID = 999999

# no open findings (the `if epsI > 0` guard was fixed in /repo af33707: `if epsI != 0`)
PROPOSED_KNOWN = []

MY_V = ["Solvers/LeastSquares.v", "Corr/CheckC12.v", "Props/C12.v"]


def ensure_built():
    """Compile this property's own .v files when their .vo is missing or stale
    (until they are listed in _CoqProject)."""
    th = os.path.join(common.COQDIR, "theories")
    prev = 0.0
    for rel in MY_V:
        src = os.path.join(th, rel)
        vo = src[:-2] + ".vo"
        if (not os.path.exists(vo)) or os.path.getmtime(vo) < os.path.getmtime(src) or os.path.getmtime(vo) < prev:
            p = subprocess.run(["timeout", "600", "coqc", "-Q", "theories", "PV", "theories/" + rel], cwd=common.COQDIR,
                               stdout=subprocess.PIPE, stderr=subprocess.STDOUT, text=True)
            if p.returncode != 0:
                raise SystemExit("coqc %s failed:\n%s" % (rel, p.stdout[-3000:]))
        prev = os.path.getmtime(vo)


# ------------------------------------------------------------------ problems
def _ints(r, shape, lo, hi, cplx):
    a = np.array([r.randint(lo, hi) for _ in range(int(np.prod(shape)))], dtype=float).reshape(shape)
    if cplx:
        b = np.array([r.randint(lo, hi) for _ in range(int(np.prod(shape)))], dtype=float).reshape(shape)
        return a + 1j * b
    return a


def gen_raw(r):
    cplx = r.random() < 0.4
    n = r.choice([1, 2, 2, 3, 3, 4, 4, 5, 6])
    m = r.randint(n, 6) if r.random() < 0.8 else r.randint(1, 6)
    pb = {"cplx": cplx, "n": n, "m": m}
    pb["A"] = _ints(r, (m, n), -4, 4, cplx)
    pb["y"] = _ints(r, (m,), -5, 5, cplx)
    wk = r.choice(["none", "none", "diag", "diag", "dense", "dense"])
    pb["wkind"] = wk
    if wk == "diag":
        pb["Wr"] = np.diag(np.array([r.randint(1, 3) for _ in range(m)], dtype=float)).astype(pb["A"].dtype)
    elif wk == "dense":
        pb["Wr"] = _ints(r, (m, m), -2, 2, cplx)
    else:
        pb["Wr"] = None
    nreg = r.choice([0, 1, 1, 2, 2, 3])
    regs = []
    for _ in range(nreg):
        kinds = ["mat", "mat", "mat", "ident"] + (["d1", "d2"] if n >= 3 else [])
        k = r.choice(kinds)
        if k == "mat":
            rows = r.randint(1, min(6, n + 1))
            regs.append({"kind": "mat", "R": _ints(r, (rows, n), -3, 3, cplx)})
        else:
            regs.append({"kind": k})
    pb["regs"] = regs
    pb["regs_none"] = (nreg == 0 and r.random() < 0.5)       # Regs=None instead of []
    if nreg and r.random() < 0.7:
        pb["dataregs"] = "given"
    else:
        pb["dataregs"] = None
    pb["_d_seed"] = r.getrandbits(32)
    pb["epsRs"] = [r.choice(EPS_R) for _ in range(nreg)] if (nreg and r.random() < 0.8) else None
    pb["epsI"] = r.choice(EPS_I)
    nn = r.choice([0, 0, 1, 1, 2])
    pb["Ms"] = [_ints(r, (r.randint(1, n), n), -2, 2, cplx) for _ in range(nn)]
    pb["epsNRs"] = [r.choice(EPS_N) for _ in range(nn)]
    pb["x0"] = _ints(r, (n,), -4, 4, cplx)
    pk = r.choice(["I", "I", "diag", "dense", "dense"])
    pb["pkind"] = pk
    if pk == "diag":
        pb["P"] = np.diag(np.array([r.randint(1, 3) for _ in range(n)], dtype=float)).astype(pb["A"].dtype)
    elif pk == "dense":
        pb["P"] = _ints(r, (n, n), -2, 2, cplx) + 4 * np.eye(n)
    else:
        pb["P"] = np.eye(n, dtype=pb["A"].dtype)
    return pb


MIXES_C = ["real_y", "real_y", "real_y_d", "real_y_x0", "real_op"]
MIXES_R = ["int_y", "int_y_d", "int_all", "int_d", "f32_d_x0", "int_y_f32_d"]


def no_mix():
    return {"y_real": False, "d_real": False, "x0_real": False, "real_op": False,
            "y_int": False, "d_int": False, "x0_int": False, "d_f32": False, "x0_f32": False, "name": "none"}


def draw_mix(r, pb):
    """MIXED dtypes of the arrays handed to the solvers (values stay the same
    small integers; only numpy dtypes differ).  Combinations the unchanged
    library rejects (real operator with complex data through VStack;
    float32 y, which limits lsqr to single precision) are not generated."""
    mx = no_mix()
    if r.random() >= 0.45:
        return mx
    k = r.choice(MIXES_C if pb["cplx"] else MIXES_R)
    mx["name"] = k
    if k in ("real_y", "real_y_d", "real_y_x0"):
        mx["y_real"] = True
        mx["d_real"] = k == "real_y_d"
        mx["x0_real"] = k == "real_y_x0"
    elif k == "real_op":
        mx["real_op"] = True
    elif k == "int_y":
        mx["y_int"] = True
    elif k == "int_y_d":
        mx["y_int"] = mx["d_int"] = True
    elif k == "int_all":
        mx["y_int"] = mx["d_int"] = mx["x0_int"] = True
    elif k == "int_d":
        mx["d_int"] = True
    elif k == "f32_d_x0":
        mx["d_f32"] = mx["x0_f32"] = True
    elif k == "int_y_f32_d":
        mx["y_int"] = mx["d_f32"] = True
    return mx


def apply_mix_values(pb):
    """Make the VALUES consistent with the dtype mix (drop imaginary parts
    where an array is handed over as a real one)."""
    mx = pb["mix"]
    if mx["y_real"]:
        pb["y"] = pb["y"].real + 0j
    if mx["x0_real"]:
        pb["x0"] = pb["x0"].real + 0j
    if mx["real_op"]:
        pb["A"] = pb["A"].real + 0j
        if pb["Wr"] is not None:
            pb["Wr"] = pb["Wr"].real + 0j
        # Identity / derivative operators of real dtype reject complex input on the
        # unchanged tree: use their dense matrices through MatrixMult instead
        dense = reg_dense(pb)
        for g, R in zip(pb["regs"], dense):
            g["R"] = (g["R"].real if "R" in g else np.asarray(R).real) + 0j
            g["kind"] = "mat"
        pb["Ms"] = [M.real + 0j for M in pb["Ms"]]
        pb["P"] = pb["P"].real + 0j


def add_skew(r, pb):
    """Non-self-adjoint data weight for NormalEquationsInversion:
    W = S + K with S = Wr^H Wr (or I) and K = u v^H - v u^H (anti-Hermitian),
    u orthogonal to range(Op) so that Op^H W Op = Op^H S Op stays Hermitian
    positive definite (cg converges) while Op^H W y != Op^H W^H y.  Row k of
    A is replaced to make u^H A = 0 with u_k = 1 (entries stay integers)."""
    pb["K"] = None
    m, n = pb["m"], pb["n"]
    if m <= n or r.random() >= 0.4:
        return
    cv = pb["cplx"] and not pb["mix"]["real_op"]
    k = r.randrange(m)
    u = _ints(r, (m,), -2, 2, cv).astype(pb["A"].dtype)
    v = _ints(r, (m,), -2, 2, cv).astype(pb["A"].dtype)
    u[k] = 1
    A = pb["A"].copy()
    A[k] = -sum(np.conj(u[i]) * A[i] for i in range(m) if i != k)
    K = np.outer(u, np.conj(v)) - np.outer(v, np.conj(u))
    if not np.any(K):
        return
    pb["A"] = A
    pb["K"] = K.astype(pb["A"].dtype)


def S_of(pb):
    Wr = pb["Wr"] if pb["Wr"] is not None else np.eye(pb["m"])
    return Wr.conj().T @ Wr


def Wne_of(pb):
    """The Weight handed to NormalEquationsInversion (None = not given)."""
    if pb.get("K") is not None:
        return S_of(pb) + pb["K"]
    return None if pb["Wr"] is None else S_of(pb)


def op_dtype(pb):
    return "complex128" if (pb["cplx"] and not pb.get("mix", {}).get("real_op")) else "float64"


def cast_y(pb, y):
    mx = pb.get("mix", {})
    if mx.get("y_real"):
        return np.ascontiguousarray(y.real, dtype=np.float64)
    if mx.get("y_int"):
        return np.asarray(y).real.astype(np.int64)
    return y


def cast_d(pb, d):
    mx = pb.get("mix", {})
    if mx.get("d_real"):
        return np.ascontiguousarray(d.real, dtype=np.float64)
    if mx.get("d_int"):
        return np.asarray(d).real.astype(np.int64)
    if mx.get("d_f32"):
        return np.asarray(d).real.astype(np.float32)
    return d


def cast_x0(pb, x):
    mx = pb.get("mix", {})
    if x is None:
        return None
    if mx.get("x0_real"):
        return np.ascontiguousarray(x.real, dtype=np.float64)
    if mx.get("x0_int"):
        return np.asarray(x).real.astype(np.int64)
    if mx.get("x0_f32"):
        return np.asarray(x).real.astype(np.float32)
    return x


def reg_dense(pb):
    """Dense matrices of the regularisation operators, extracted from the
    implementation's own operators (L1 style)."""
    return [np.asarray(op.todense()) for op in build_regs_ops(pb)]


def build_regs_ops(pb):
    import pylops
    dt = op_dtype(pb)
    n = pb["n"]
    ops = []
    for g in pb["regs"]:
        if g["kind"] == "mat":
            ops.append(pylops.MatrixMult(np.array(np.real(g["R"]) if dt == "float64" else g["R"], dtype=dt), dtype=dt))
        elif g["kind"] == "ident":
            ops.append(pylops.Identity(n, dtype=dt))
        elif g["kind"] == "d1":
            ops.append(pylops.FirstDerivative(n, dtype=dt))
        else:
            ops.append(pylops.SecondDerivative(n, dtype=dt))
    return ops


def finalize(pb):
    """dataregs (need the reg shapes) and the dense documented systems."""
    Rs = reg_dense(pb)
    pb["Rd"] = Rs
    if pb["dataregs"] == "given":
        r = np.random.RandomState(pb["_d_seed"])
        ds = []
        for R in Rs:
            d = r.randint(-4, 5, R.shape[0]).astype(float)
            if pb["cplx"]:
                d = d + 1j * r.randint(-4, 5, R.shape[0])
            if r.rand() < 0.2:
                d = d * 0
            if pb["mix"]["d_real"]:
                d = d.real
            ds.append(d.astype(pb["A"].dtype))
        pb["ds"] = ds
    else:
        pb["ds"] = None
    return pb


def dense_systems(pb):
    """numpy closed forms of the documented problems (used only for the
    conditioning filter, solver tolerances and the failing-input search)."""
    A, y, n, m = pb["A"], pb["y"], pb["n"], pb["m"]
    H = lambda M: M.conj().T
    Wr = pb["Wr"] if pb["Wr"] is not None else np.eye(m)
    W = H(Wr) @ Wr
    Rs = pb["Rd"]
    ds = pb["ds"] if pb["ds"] is not None else [np.zeros(R.shape[0]) for R in Rs]
    es = pb["epsRs"] if pb["epsRs"] is not None else [1.0] * len(Rs)
    Nr = H(A) @ W @ A + sum((e ** 2 * H(R) @ R for e, R in zip(es, Rs)), np.zeros((n, n)))
    br = H(A) @ W @ y + sum((e ** 2 * H(R) @ d for e, R, d in zip(es, Rs, ds)), np.zeros(n))
    Nn = Nr + pb["epsI"] ** 2 * np.eye(n) + sum((e ** 2 * H(M) @ M for e, M in zip(pb["epsNRs"], pb["Ms"])), np.zeros((n, n)))
    bn = br
    if pb.get("K") is not None:      # documented: Op^H W Op and Op^H W y with W = S + K as given
        Nn = Nn + H(A) @ pb["K"] @ A
        bn = br + H(A) @ pb["K"] @ y
    Np = H(A) @ A
    bp = H(A) @ y
    return {"NE": (Nn, bn), "RI": (Nr, br), "PI": (Np, bp)}


def cond(M):
    try:
        return float(np.linalg.cond(M))
    except Exception:
        return float("inf")


def gen(idx):
    rejected = 0
    for att in range(200):
        r = common.rng("C12", idx, att)
        pb = gen_raw(r)
        pb["mix"] = draw_mix(common.rng("C12mix", idx, att), pb)
        apply_mix_values(pb)
        add_skew(common.rng("C12skew", idx, att), pb)
        pb = finalize(pb)
        sy = dense_systems(pb)
        if cond(sy["NE"][0]) > COND_MAX or cond(sy["RI"][0]) > COND_MAX:
            rejected += 1
            continue
        pb["pi"] = (pb["m"] >= pb["n"] and cond(sy["PI"][0]) <= COND_MAX and cond(pb["P"]) <= 1e3)
        pb["id"] = idx
        pb["attempt"] = att
        pb["rejected"] = rejected
        return pb
    raise RuntimeError("no well-conditioned problem found for index %d" % idx)


# ------------------------------------------------------------------ running
def mk_ops(pb):
    import pylops
    dt = op_dtype(pb)
    rl = (lambda M: np.real(M)) if dt == "float64" else (lambda M: M)
    A = np.array(rl(pb["A"]), dtype=dt)
    Op = pylops.MatrixMult(A, dtype=dt)
    Regs = build_regs_ops(pb)
    if pb.get("regs_none") and not Regs:
        Regs = None
    H = lambda M: M.conj().T
    if pb["Wr"] is None:
        Wne = Wri = None
    elif pb["wkind"] == "diag":
        wr = rl(np.diag(pb["Wr"])).astype(dt)
        Wne = pylops.Diagonal((wr.conj() * wr).astype(dt), dtype=dt)
        Wri = pylops.Diagonal(wr, dtype=dt)
    else:
        Wne = pylops.MatrixMult(rl(H(pb["Wr"]) @ pb["Wr"]).astype(dt), dtype=dt)
        Wri = pylops.MatrixMult(np.array(rl(pb["Wr"]), dtype=dt), dtype=dt)
    Wsym = Wne
    if pb.get("K") is not None:
        Wne = pylops.MatrixMult(rl(Wne_of(pb)).astype(dt), dtype=dt)
    NRegs = [pylops.MatrixMult(rl(H(M) @ M).astype(dt), dtype=dt) for M in pb["Ms"]] or None
    epsNRs = list(pb["epsNRs"]) or None
    if pb["pkind"] == "I":
        P = pylops.Identity(pb["n"], dtype=dt)
    elif pb["pkind"] == "diag":
        P = pylops.Diagonal(rl(np.diag(pb["P"])).astype(dt), dtype=dt)
    else:
        P = pylops.MatrixMult(np.array(rl(pb["P"]), dtype=dt), dtype=dt)
    return dict(Op=Op, Regs=Regs, Wne=Wne, Wsym=Wsym, Wri=Wri, NRegs=NRegs, epsNRs=epsNRs, P=P, dt=dt,
                ydt="complex128" if pb["cplx"] else "float64")


def dr(pb):
    return None if pb["ds"] is None else [cast_d(pb, d.copy()) for d in pb["ds"]]


def er(pb):
    return None if pb["epsRs"] is None else list(pb["epsRs"])


def x0_of(pb, kind):
    if kind == "none":
        return None
    if kind == "zeros":
        return cast_x0(pb, np.zeros(pb["n"], dtype=pb["A"].dtype))
    return cast_x0(pb, np.array(pb["x0"], dtype=pb["A"].dtype))


def kw_for(solver, engine, n, bnorm2):
    it = 10 * n + 20
    if solver == "NE":
        return dict(rtol=1e-14, atol=0.0, maxiter=it) if engine == "scipy" else dict(niter=it, tol=1e-26 * max(1.0, bnorm2))
    return (dict(atol=1e-14, btol=1e-14, conlim=1e12, iter_lim=it) if engine == "scipy"
            else dict(niter=it, tol=1e-26 * max(1.0, bnorm2)))


def solve_variant(pb, solver, engine, x0kind, functional=False, plain=False, want_asm=False):
    """One call of the real implementation.  plain=True: no weight / regs /
    epsI / NRegs (the formulation on which all three coincide);
    solver 'NEr' = NormalEquationsInversion on the problem of
    RegularizedInversion (W = Wr^H Wr, same regs, no epsI/NRegs)."""
    from pylops.optimization import cls_leastsquares as cl
    from pylops.optimization import leastsquares as ls
    o = mk_ops(pb)
    y = cast_y(pb, np.array(pb["y"], dtype=o["ydt"]))
    x0 = x0_of(pb, x0kind)
    sy = dense_systems(pb)
    asm = {}
    if solver in ("NE", "NEr"):
        bn = float(np.linalg.norm(sy["NE"][1]) ** 2)
        kw = kw_for("NE", engine, pb["n"], bn)
        if plain:
            args = dict(Regs=None, Weight=None, dataregs=None, epsI=0.0, epsRs=None, NRegs=None, epsNRs=None)
        elif solver == "NEr":
            args = dict(Regs=o["Regs"], Weight=o["Wsym"], dataregs=dr(pb), epsI=0.0, epsRs=er(pb), NRegs=None, epsNRs=None)
        else:
            args = dict(Regs=o["Regs"], Weight=o["Wne"], dataregs=dr(pb), epsI=pb["epsI"], epsRs=er(pb),
                        NRegs=o["NRegs"], epsNRs=o["epsNRs"])
        if functional:
            x = ls.normal_equations_inversion(o["Op"], y, args.pop("Regs"), x0=x0, engine=engine, **args, **kw)[0]
        else:
            s = cl.NormalEquationsInversion(o["Op"])
            s.setup(y, **args)
            if want_asm:
                try:
                    asm["N"] = np.asarray(s.Op_normal.todense())
                    asm["y"] = np.array(s.y_normal, copy=True).ravel()
                except AttributeError:
                    pass
            x = s.run(x0, engine=engine, **kw)[0]
    elif solver == "RI":
        S0 = sy["RI"]
        kw = kw_for("RI", engine, pb["n"], float(np.linalg.norm(S0[1]) ** 2))
        if plain:
            args = dict(Regs=None, Weight=None, dataregs=None, epsRs=None)
        else:
            args = dict(Regs=o["Regs"], Weight=o["Wri"], dataregs=dr(pb), epsRs=er(pb))
        if functional:
            x = ls.regularized_inversion(o["Op"], y, args.pop("Regs"), x0=x0, engine=engine, **args, **kw)[0]
        else:
            s = cl.RegularizedInversion(o["Op"])
            s.setup(y, **args)
            if want_asm:
                try:
                    asm["Op"] = np.asarray(s.RegOp.todense())
                    asm["d"] = np.array(s.datatot, copy=True).ravel()
                except AttributeError:
                    pass
            x = s.run(x0, engine=engine, **kw)[0]
    else:
        kw = kw_for("PI", engine, pb["n"], float(np.linalg.norm(sy["PI"][1]) ** 2))
        P = o["P"]
        if plain:
            import pylops
            P = pylops.Identity(pb["n"], dtype=o["dt"])
        if functional:
            x = ls.preconditioned_inversion(o["Op"], y, P, x0=x0, engine=engine, **kw)[0]
        else:
            s = cl.PreconditionedInversion(o["Op"])
            s.setup(y, P)
            x = s.run(x0, engine=engine, **kw)[0]
    return np.asarray(x).ravel(), asm


def run_problem(pb):
    """All solves of one problem.  Returns a record with every returned x
    tagged by (solver, engine, x0kind, functional, plain)."""
    rec = {"id": pb["id"], "xs": [], "asm": {}, "errors": []}

    def go(solver, engine, x0kind, **k):
        tag = dict(solver=solver, engine=engine, x0=x0kind, functional=k.get("functional", False), plain=k.get("plain", False))
        try:
            x, asm = solve_variant(pb, solver, engine, x0kind, **k)
            if not np.all(np.isfinite(x)):
                raise FloatingPointError("non-finite model returned")
            rec["xs"].append((tag, x))
            rec["asm"].update(asm)
        except Exception as e:   # an exception on a valid problem is itself reported
            rec["errors"].append((tag, "%s: %s" % (type(e).__name__, e)))

    # a real operator with complex data is accepted by the unchanged library only
    # through NormalEquationsInversion(engine=scipy) and PreconditionedInversion
    rop = pb["mix"]["real_op"]
    first = True
    for solver in (("NE",) if rop else ("NE", "RI")) + (("PI",) if pb["pi"] else ()):
        first = True
        for engine in ENGINES:
            if rop and solver == "NE" and engine != "scipy":
                continue
            for x0kind in X0KINDS:
                go(solver, engine, x0kind, want_asm=first)
                first = False
    # functional entry points
    go("NE", "scipy", "random", functional=True)
    if not rop:
        go("RI", "pylops", "random", functional=True)
    if pb["pi"]:
        go("PI", "scipy", "random", functional=True)
    # coinciding formulations
    go("NEr", "scipy", "none", functional=True)
    if pb["pi"] and not rop:
        go("PI", "scipy", "none", functional=True, plain=True)
        go("RI", "scipy", "none", functional=True, plain=True)
        go("NE", "scipy", "none", functional=True, plain=True)
    return rec


def documented_for(tag):
    """Which documented system a returned x must solve."""
    if tag["plain"]:
        return "PI"
    return {"NE": "NE", "NEr": "RI", "RI": "RI", "PI": "PI"}[tag["solver"]]


def agree_pairs(rec):
    def find(**q):
        for tag, x in rec["xs"]:
            if all(tag[k] == v for k, v in q.items()):
                return x
        return None
    pairs = []
    a = find(solver="NEr")
    b = find(solver="RI", engine="scipy", x0="none", functional=False, plain=False)
    if a is not None and b is not None:
        pairs.append(("NE(W=Wr^H Wr, same regs) vs RI", a, b))
    p = [find(solver=s, plain=True) for s in ("PI", "RI", "NE")]
    if all(t is not None for t in p):
        pairs.append(("PI(P=I) vs RI(plain)", p[0], p[1]))
        pairs.append(("RI(plain) vs NE(plain)", p[1], p[2]))
    for s, e in (("NE", "scipy"), ("RI", "pylops"), ("PI", "scipy")):
        a = find(solver=s, engine=e, x0="random", functional=True, plain=False)
        b = find(solver=s, engine=e, x0="random", functional=False, plain=False)
        if a is not None and b is not None:
            pairs.append(("%s functional vs class" % s, a, b))
    return pairs


# ------------------------------------------------------------------ emission
def _S(cplx):
    return "GS" if cplx else "QcS"


def _vl(v, cplx):
    return common.vlit(list(v), cplx)


def _ml(M, cplx):
    M = np.asarray(M)
    if M.ndim != 2 or M.shape[0] == 0:
        return "[]"
    return common.mlit([list(r) for r in M], cplx)


def _sc(e, cplx):
    return common.glit(e) if cplx else common.qlit(float(e))


def _lsq(pb, which, cplx):
    """Gallina literal of the lsq record: 'NE' (Weight = W), 'RI' (Weight = Wr,
    no epsI/NRegs), 'PI' (A, y only)."""
    S = _S(cplx)
    H = lambda M: M.conj().T
    T = "(list (list %s))" % ("G" if cplx else "Qc")
    if which == "NE" and Wne_of(pb) is not None:
        W = "(Some %s)" % _ml(Wne_of(pb), cplx)
    elif which in ("PI", "NE") or pb["Wr"] is None:
        W = "(@None %s)" % T
    else:
        W = "(Some %s)" % _ml(pb["Wr"], cplx)
    if which == "PI" or not pb["Rd"]:
        regs = "[]"
    else:
        Rs = "[" + ";\n ".join(_ml(R, cplx) for R in pb["Rd"]) + "]"
        ds = "None" if pb["ds"] is None else "(Some [" + "; ".join(_vl(d, cplx) for d in pb["ds"]) + "])"
        es = "None" if pb["epsRs"] is None else "(Some [" + "; ".join(_sc(e, cplx) for e in pb["epsRs"]) + "])"
        regs = "(build_regs %s %s %s %s)" % (S, Rs, ds, es)
    if which == "NE" and pb["Ms"]:
        nregs = "[" + "; ".join("(Build_nreg %s %s %s)" % (S, _sc(e, cplx), _ml(H(M) @ M, cplx))
                                for e, M in zip(pb["epsNRs"], pb["Ms"])) + "]"
    else:
        nregs = "[]"
    epsI = _sc(pb["epsI"] if which == "NE" else 0.0, cplx)
    return "(Build_lsq %s %d%%nat %d%%nat %s %s %s %s %s %s)" % (
        S, pb["m"], pb["n"], _ml(pb["A"], cplx), _vl(pb["y"], cplx), W, regs, nregs, epsI)


def case_lit(pb, rec, cid=None, corrupt=False):
    cplx = pb["cplx"]
    S = _S(cplx)
    xs = {"NE": [], "RI": [], "PI": []}
    for tag, x in rec["xs"]:
        xs[documented_for(tag)].append(x)
    if corrupt:
        xs["NE"] = [xs["NE"][0] + 1.0] if xs["NE"] else [np.ones(pb["n"])]
    opt = lambda o, f: "None" if o is None else "(Some %s)" % f(o)
    pairs = agree_pairs(rec)
    return "(Build_case %s %d%%nat %s %s\n %s\n %s %s [%s]\n %s\n %s %s [%s]\n %s [%s]\n [%s])" % (
        S, pb["id"] if cid is None else cid, common.qlit(TOLM), common.qlit(TOLX),
        _lsq(pb, "NE", cplx), opt(rec["asm"].get("N"), lambda M: _ml(M, cplx)), opt(rec["asm"].get("y"), lambda v: _vl(v, cplx)),
        "; ".join(_vl(x, cplx) for x in xs["NE"]),
        _lsq(pb, "RI", cplx), opt(rec["asm"].get("Op"), lambda M: _ml(M, cplx)), opt(rec["asm"].get("d"), lambda v: _vl(v, cplx)),
        "; ".join(_vl(x, cplx) for x in xs["RI"]),
        _lsq(pb, "PI", cplx), "; ".join(_vl(x, cplx) for x in xs["PI"]),
        "; ".join("(%s, %s)" % (_vl(a, cplx), _vl(b, cplx)) for _, a, b in pairs))


HEADER = ("From Coq Require Import QArith Qcanon ZArith List.\n"
          "From PV Require Import Dict Vec Dot Mat QcInst GaussQc Check LeastSquares CheckC12.\nImport ListNotations.\n")


def coq_check(items, d):
    """items: list of (pb, rec, cid, corrupt).  Returns {cid: [codes]}."""
    names = []
    nsh = 16 if len(items) <= 200 else 32
    per = max(1, (len(items) + nsh - 1) // nsh)
    for k, chunk in enumerate(common.shard(items, per)):
        nm = "c12_%d" % k
        with open(os.path.join(d, nm + ".v"), "w") as f:
            f.write(HEADER)
            rs = [case_lit(pb, rec, cid, cor) for pb, rec, cid, cor in chunk if not pb["cplx"]]
            cs = [case_lit(pb, rec, cid, cor) for pb, rec, cid, cor in chunk if pb["cplx"]]
            f.write("Definition rs : list caseR := [\n%s].\n" % ";\n".join(rs))
            f.write("Definition cs : list caseC := [\n%s].\n" % ";\n".join(cs))
            f.write("Eval vm_compute in (run12 rs cs).\n")
        names.append(nm)
    outs = common.run_coq_files(d, names)
    res = {}
    for nm in names:
        res.update(common.parse_failing(outs[nm]))
    return res


# ------------------------------------------------------------------ search / replay
def ser(pb):
    c = lambda a: None if a is None else [[str(complex(t)) for t in row] for row in np.atleast_2d(a)]
    v = lambda a: None if a is None else [str(complex(t)) for t in a]
    return {"cplx": pb["cplx"], "n": pb["n"], "m": pb["m"], "A": c(pb["A"]), "y": v(pb["y"]), "wkind": pb["wkind"],
            "Wr": c(pb["Wr"]), "regs": [{"kind": g["kind"], "R": c(g.get("R"))} for g in pb["regs"]],
            "regs_none": pb.get("regs_none", False),
            "ds": None if pb["ds"] is None else [v(d) for d in pb["ds"]], "epsRs": pb["epsRs"], "epsI": pb["epsI"],
            "Ms": [c(M) for M in pb["Ms"]], "epsNRs": pb["epsNRs"], "x0": v(pb["x0"]), "pkind": pb["pkind"], "P": c(pb["P"]),
            "pi": pb.get("pi", True), "mix": pb.get("mix"), "K": c(pb.get("K"))}


def deser(s):
    dt = complex if s["cplx"] else float
    cv = lambda t: complex(t) if s["cplx"] else complex(t).real
    c = lambda a: None if a is None else np.array([[cv(t) for t in row] for row in a], dtype=dt)
    v = lambda a: None if a is None else np.array([cv(t) for t in a], dtype=dt)
    pb = {"cplx": s["cplx"], "n": s["n"], "m": s["m"], "A": c(s["A"]), "y": v(s["y"]), "wkind": s["wkind"], "Wr": c(s["Wr"]),
          "regs": [{"kind": g["kind"], **({"R": c(g["R"])} if g["R"] is not None else {})} for g in s["regs"]],
          "regs_none": s.get("regs_none", False),
          "dataregs": None, "epsRs": s["epsRs"], "epsI": s["epsI"], "Ms": [c(M) for M in s["Ms"]], "epsNRs": s["epsNRs"],
          "x0": v(s["x0"]), "pkind": s["pkind"], "P": c(s["P"]), "pi": s.get("pi", True), "id": 0,
          "mix": s.get("mix") or no_mix(), "K": c(s.get("K"))}
    pb["A"] = pb["A"].reshape(s["m"], s["n"])
    pb["Rd"] = reg_dense(pb)
    pb["ds"] = None if s["ds"] is None else [v(d) for d in s["ds"]]
    return pb


def expected_x(pb, tag):
    N, b = dense_systems(pb)[documented_for(tag)]
    return np.linalg.solve(N, b)


def wrong(pb, tag, x):
    xe = expected_x(pb, tag)
    return (not np.all(np.isfinite(x))) or float(np.abs(x - xe).max()) > 1e-6 * (1 + float(np.abs(xe).max())), xe


def still_fails(pb, tag):
    try:
        x, _ = solve_variant(pb, tag["solver"], tag["engine"], tag["x0"], functional=tag["functional"], plain=tag["plain"])
        return wrong(pb, tag, x)[0]
    except Exception:
        return False


def shrink(pb, tag):
    """Greedy removal of problem features while the returned model stays wrong."""
    cur = dict(pb)

    def attempt(mod):
        t = dict(cur)
        mod(t)
        try:
            t["Rd"] = reg_dense(t)
            sy = dense_systems(t)
            if cond(sy[documented_for(tag)][0]) > COND_MAX:
                return None
            return t if still_fails(t, tag) else None
        except Exception:
            return None

    def drop_reg(i):
        def f(t):
            t["regs"] = t["regs"][:i] + t["regs"][i + 1:]
            t["ds"] = None if t["ds"] is None else t["ds"][:i] + t["ds"][i + 1:]
            t["epsRs"] = None if t["epsRs"] is None else t["epsRs"][:i] + t["epsRs"][i + 1:]
        return f

    def drop_nreg(i):
        def f(t):
            t["Ms"] = t["Ms"][:i] + t["Ms"][i + 1:]
            t["epsNRs"] = t["epsNRs"][:i] + t["epsNRs"][i + 1:]
        return f

    changed = True
    while changed:
        changed = False
        mods = [drop_reg(i) for i in range(len(cur["regs"]))] + [drop_nreg(i) for i in range(len(cur["Ms"]))]
        if cur["Wr"] is not None:
            mods.append(lambda t: t.update(Wr=None, wkind="none"))
        if cur.get("K") is not None:
            mods.append(lambda t: t.update(K=None))
        if cur["epsI"] != 0:
            mods.append(lambda t: t.update(epsI=0.0))
        if cur["ds"] is not None:
            mods.append(lambda t: t.update(ds=None))
        if cur["epsRs"] is not None:
            mods.append(lambda t: t.update(epsRs=None))
        for mod in mods:
            t = attempt(mod)
            if t is not None:
                cur = t
                changed = True
                break
    return cur


def search(pb, rec):
    """Concrete failing calls: returned x differs from numpy.linalg.solve of the
    dense documented normal equations."""
    out = []
    seen = set()
    for tag, x in rec["xs"]:
        bad, xe = wrong(pb, tag, x)
        key = (tag["solver"], tag["plain"])
        if bad and key not in seen:
            seen.add(key)
            small = shrink(pb, tag)
            xs, _ = solve_variant(small, tag["solver"], tag["engine"], tag["x0"], functional=tag["functional"], plain=tag["plain"])
            xe = expected_x(small, tag)
            out.append({"kind": "wrong-model", "call": tag, "problem": ser(small),
                        "returned": [str(complex(t)) for t in xs], "expected_dense_solve": [str(complex(t)) for t in xe],
                        "max_abs_error": float(np.abs(xs - xe).max())})
    return out


def replay(rp):
    if rp.get("kind") == "exception":
        pb = deser(rp["problem"])
        t = rp["call"]
        try:
            solve_variant(pb, t["solver"], t["engine"], t["x0"], functional=t["functional"], plain=t["plain"])
            print("not reproduced")
            return 0
        except Exception as e:
            print("reproduced: %s: %s" % (type(e).__name__, e))
            return 1
    if "problem" not in rp:
        print("no concrete input recorded (%s)" % rp.get("broken", rp.get("what")))
        return 1
    pb = deser(rp["problem"])
    t = rp["call"]
    x, _ = solve_variant(pb, t["solver"], t["engine"], t["x0"], functional=t["functional"], plain=t["plain"])
    bad, xe = wrong(pb, t, x)
    print("returned x          =", x)
    print("dense normal eq. x  =", xe)
    print("reproduced" if bad else "not reproduced")
    return 1 if bad else 0


# ------------------------------------------------------------------ main
def main(tier):
    R = common.Report(PID, tier)
    common.coq_build()
    ensure_built()
    thms, axioms = common.props_assumptions(PID)
    nprob = 80 if tier == "quick" else 800
    if os.environ.get("C12_NPROB"):          # self-test convenience only
        nprob = int(os.environ["C12_NPROB"])
    t0 = time.time()
    pbs = [gen(i) for i in range(nprob)]
    recs = [run_problem(pb) for pb in pbs]
    t_py = time.time() - t0
    items = [(pb, rec, None, False) for pb, rec in zip(pbs, recs)]
    # canary: first real problem with a deliberately wrong NE model
    cpb = next(pb for pb, rec in zip(pbs, recs) if rec["xs"])
    crec = recs[pbs.index(cpb)]
    items.append((cpb, crec, CANARY_ID, True))
    d = common.workdir(PID)
    t1 = time.time()
    codes = coq_check(items, d)
    t_coq = time.time() - t1
    if 4 not in codes.get(CANARY_ID, []):
        raise SystemExit("C12: canary (deliberately wrong model) was not rejected by the Coq checker: pipeline broken")
    codes.pop(CANARY_ID, None)

    what = {1: "malformed problem", 2: "Op_normal.todense() differs from documented N",
            3: "y_normal differs from documented rhs", 4: "NormalEquationsInversion model does not solve N x = rhs",
            5: "RegularizedOperator(...).todense() differs from the model stack", 6: "datatot differs from the model stacked data",
            7: "a model that must solve the normal equations of the RegularizedInversion problem does not",
            8: "a model that must solve Op^H Op x = Op^H y (PreconditionedInversion / plain formulations) does not",
            9: "coinciding formulations returned different models", 10: "code-shaped model of Op_normal/y_normal differs from (N, rhs)"}
    nsolves = 0
    nontriv = set()
    dist = {"real": 0, "complex": 0, "nregs": {}, "weight": {}, "epsI>0": 0, "epsI<0": 0, "NRegs>0": 0, "dataregs=None": 0, "epsRs=None": 0,
            "with PI": 0, "rejected_ill_conditioned": 0, "m<n": 0, "dtype_mix": {}, "non_self_adjoint_W": 0}
    ncert = 0
    nfail_cert = 0
    for pb, rec in zip(pbs, recs):
        dist["complex" if pb["cplx"] else "real"] += 1
        dist["nregs"][str(len(pb["regs"]))] = dist["nregs"].get(str(len(pb["regs"])), 0) + 1
        dist["weight"][pb["wkind"]] = dist["weight"].get(pb["wkind"], 0) + 1
        dist["epsI>0"] += pb["epsI"] > 0
        dist["epsI<0"] += pb["epsI"] < 0
        dist["NRegs>0"] += len(pb["Ms"]) > 0
        dist["dataregs=None"] += pb["ds"] is None
        dist["epsRs=None"] += pb["epsRs"] is None
        dist["with PI"] += bool(pb["pi"])
        dist["non_self_adjoint_W"] += pb.get("K") is not None
        dist["dtype_mix"][pb["mix"]["name"]] = dist["dtype_mix"].get(pb["mix"]["name"], 0) + 1
        dist["m<n"] += pb["m"] < pb["n"]
        dist["rejected_ill_conditioned"] += pb["rejected"]
        h = hashlib.sha256(json.dumps(ser(pb), sort_keys=True).encode()).hexdigest()[:16]
        for tag, x in rec["xs"]:
            nsolves += 1
            if np.abs(x).max(initial=0) > 0:
                nontriv.add((h, tag["solver"], tag["engine"], tag["x0"], tag["functional"], tag["plain"]))
        ncert += len(rec["xs"]) + 4 + len(agree_pairs(rec))
        for tag, err in rec["errors"]:
            R.violation("%s(engine=%s, x0=%s) raised on a valid problem: %s" % (tag["solver"], tag["engine"], tag["x0"], err),
                        {"kind": "exception", "call": tag, "problem": ser(pb), "error": err})
        c = codes.get(pb["id"], [])
        if not c:
            continue
        nfail_cert += len(c)
        found = search(pb, rec) if set(c) & {2, 3, 4, 5, 6, 7, 8, 9} else []
        if found:
            for rp in found:
                t = rp["call"]
                R.violation("%s(engine=%s, x0=%s%s) returns a model that is not the solution of the documented normal equations "
                            "(max error %.3g; Coq codes %s: %s)" % (t["solver"], t["engine"], t["x0"], ", plain" if t["plain"] else "",
                                                                     rp["max_abs_error"], c, "; ".join(what[k] for k in c)), rp)
        else:
            R.violation("certificate check fails without a wrong returned model: %s (problem %d)" % ("; ".join(what[k] for k in c), pb["id"]),
                        {"problem": ser(pb), "codes": c,
                         "broken": "Corr.CheckC12.check codes %s vs theorems C12_assembly_normal_correct_partial / C12_stack_normal_eq" % c},
                        no_input=True)
    coqchk = None
    if tier == "thorough":
        p = subprocess.run(["timeout", "900", "coqchk", "-silent", "-o", "-Q", "theories", "PV", "PV.Props.C12"], cwd=common.COQDIR,
                           stdout=subprocess.PIPE, stderr=subprocess.STDOUT, text=True)
        coqchk = "ok, axioms: <none>" if p.returncode == 0 and "Axioms: <none>" in p.stdout else "FAILED"
        if coqchk == "FAILED":
            R.violation("coqchk rejects Props/C12.vo or reports axioms", {"coqchk": p.stdout[-1500:]}, no_input=True)
    if axioms and not set(axioms) <= common.ALLOWED_AXIOMS:
        R.violation("Props/C12.v depends on unexpected axioms %s" % axioms, {"axioms": axioms}, no_input=True)
    R.cov.update(
        obligations=len(thms) + ncert, discharged=len(thms) + ncert - nfail_cert,
        checker_cmd="make -C coq + coqc Solvers/LeastSquares.v Corr/CheckC12.v Props/C12.v (Print Assumptions) + "
                    "coqc .work/C12/c12_*.v (vm_compute: exact N, rhs over Qc/Gaussian Qc; residual certificates; assembly comparison)",
        theorems=thms, axioms_reported=axioms, evaluations=nsolves, distinct_nontrivial=len(nontriv),
        rule="one case = one random dense problem (n<=6, m<=6, integer/Gaussian-integer entries, cond(N)<=1e5 by rejection) run through "
             "NormalEquationsInversion, RegularizedInversion, PreconditionedInversion x engines {scipy,pylops} x x0 {None,zeros,random} "
             "+ functional entry points + coinciding formulations; non-trivial = distinct (problem hash, solver, engine, x0, entry point) "
             "whose returned model is non-zero",
        problems=nprob, distribution=dist, canary="rejected (code 4) as required",
        modelled="NormalEquationsInversion.setup/run, RegularizedOperator, RegularizedInversion.setup/run, PreconditionedInversion.setup/run",
        oracles="scipy.sparse.linalg.cg/lsqr, pylops cg/cgls (C09), regulariser operators are taken as their own todense()",
        coqchk=coqchk, t_python=round(t_py, 1), t_coq=round(t_coq, 1))
    for pb, rec in list(zip(pbs, recs))[:4]:
        tag, x = rec["xs"][0]
        R.samples.append({"n": pb["n"], "m": pb["m"], "complex": pb["cplx"], "weight": pb["wkind"], "regs": [g["kind"] for g in pb["regs"]],
                          "epsRs": pb["epsRs"], "epsI": pb["epsI"], "epsNRs": pb["epsNRs"], "dataregs": None if pb["ds"] is None else "given", "dtype_mix": pb["mix"]["name"], "non_self_adjoint_W": pb.get("K") is not None,
                          "A": [[str(t) for t in row] for row in pb["A"]], "call": tag, "x": [str(t) for t in x]})
    return R.finish()
