"""C07 part (a) — derivative family and causal integration compute the
documented operation.

Decision: theorems of Props/C07a.v (code-shaped model of every _matvec_* /
_rmatvec_* = documented stencil row by row, adjoint pair, linear, for every
size) + behavioural correspondence: for each enumerated configuration the
dense matrices of the real implementation (unit vectors) are compared INSIDE
Coq (Corr/CheckC07a.v, exact rationals, 1e-9) with (1) the matrix of the
documented formula (N-d through I (x) M (x) I, composites through their
documented composition) and (2)/(3) the code-shaped forward / adjoint models.
The reference never uses the operator's own adjoint."""
import itertools
import json
import os
import re
import subprocess
import time
from fractions import Fraction

import numpy as np

from . import common

PID = "C07"
PROPS = "C07a"
OWN_V = ["Ops/Slice.v", "Ops/Deriv.v", "Ops/Deriv2.v", "Ops/DerivSpec.v", "Ops/DerivStencil.v", "Ops/Causal.v",
         "Ops/Axis.v", "Ops/AxisOps.v", "Ops/DerivND.v", "Corr/CheckC07a.v", "Props/C07a.v"]

# Genuine defects of the unchanged tree handled as known findings by this part: none.
# (The Laplacian kind defect was repaired in /repo by 5e5f222; reintroducing it is a VIOLATION.
#  The C01 defect FirstDerivative(n=3, centered, order=5, edge=True) is recorded by C01, id C01-fd-c5-edge-n3.)
PROPOSED_KNOWN = []

KINDS = ("forward", "centered", "backward")
CK = {"forward": "Forward", "centered": "Centered", "backward": "Backward"}
CIK = {"full": "Full", "half": "Half", "trapezoidal": "Trapezoidal"}


def ensure_built():
    """Compile this part's own .v files when their .vo is missing/outdated
    (until they are listed in _CoqProject)."""
    th = os.path.join(common.COQDIR, "theories")
    newest_dep = 0.0
    for f in OWN_V:
        src = os.path.join(th, f)
        if not os.path.exists(src):
            continue
        vo = src[:-2] + ".vo"
        if (not os.path.exists(vo)) or os.path.getmtime(vo) < max(os.path.getmtime(src), newest_dep):
            p = subprocess.run(["timeout", "1500", "coqc", "-Q", "theories", "PV", "theories/" + f], cwd=common.COQDIR,
                               stdout=subprocess.PIPE, stderr=subprocess.STDOUT, text=True)
            if p.returncode != 0:
                raise SystemExit("coqc %s failed:\n%s" % (f, p.stdout[-3000:]))
        newest_dep = max(newest_dep, os.path.getmtime(vo))


# ------------------------------------------------------------------ building operators
def build(family, prm):
    import pylops
    p = dict(prm)
    if family == "FirstDerivative":
        return pylops.FirstDerivative(tuple(p["dims"]), axis=p["axis"], sampling=p["sampling"], kind=p["kind"],
                                      edge=p["edge"], order=p["order"])
    if family == "SecondDerivative":
        return pylops.SecondDerivative(tuple(p["dims"]), axis=p["axis"], sampling=p["sampling"], kind=p["kind"], edge=p["edge"])
    if family == "CausalIntegration":
        return pylops.CausalIntegration(tuple(p["dims"]), axis=p["axis"], sampling=p["sampling"], kind=p["kind"],
                                        removefirst=p["removefirst"])
    if family == "Laplacian":
        return pylops.Laplacian(tuple(p["dims"]), axes=tuple(p["axes"]), weights=tuple(p["weights"]),
                                sampling=tuple(p["sampling"]), edge=p["edge"], kind=p["kind"])
    if family == "Gradient":
        return pylops.Gradient(tuple(p["dims"]), sampling=tuple(p["sampling"]), edge=p["edge"], kind=p["kind"])
    if family == "FirstDirectionalDerivative":
        return pylops.FirstDirectionalDerivative(tuple(p["dims"]), v=np.array(p["v"], dtype=float).reshape(p["vshape"]),
                                                 sampling=tuple(p["sampling"]), edge=p["edge"], kind=p["kind"])
    if family == "SecondDirectionalDerivative":
        return pylops.SecondDirectionalDerivative(tuple(p["dims"]), v=np.array(p["v"], dtype=float).reshape(p["vshape"]),
                                                  sampling=tuple(p["sampling"]), edge=p["edge"])
    raise KeyError(family)


def matrices(op):
    m, n = op.shape
    A = np.zeros((m, n))
    B = np.zeros((n, m))
    for j in range(n):
        e = np.zeros(n); e[j] = 1.0
        A[:, j] = np.asarray(op.matvec(e), dtype=float)
    for i in range(m):
        e = np.zeros(m); e[i] = 1.0
        B[:, i] = np.asarray(op.rmatvec(e), dtype=float)
    return A, B


def oni(dims, axis):
    ax = axis % len(dims)
    outer = int(np.prod(dims[:ax], dtype=int))
    inner = int(np.prod(dims[ax + 1:], dtype=int))
    return outer, int(dims[ax]), inner


# ------------------------------------------------------------------ grids
def fd_min(kind, order, edge):
    if kind == "centered" and edge:
        return 3 if order == 5 else 2      # smallest size on which the constructor+matvec do not raise
    return 1


def nd_shapes(n):
    """(dims, axis) with the derivative axis of length n in 1-3-D arrays, positive and negative axes."""
    return [((n,), 0), ((n,), -1), ((n, 3), 0), ((n, 3), -2), ((2, n), 1), ((2, n), -1),
            ((2, n, 2), 1), ((2, n, 2), -2), ((n, 2, 2), 0), ((n, 2, 2), -3), ((2, 2, n), 2), ((2, 2, n), -1)]


def gen_configs(tier):
    r = common.rng("C07a", "grid")
    cfgs = []
    samplings = (1.0, 0.5, 2.0)
    thorough = tier == "thorough"
    # FirstDerivative
    for kind, order, edge in itertools.product(KINDS, (3, 5), (False, True)):
        n0 = fd_min(kind, order, edge)
        for n in range(n0, 10):
            for s in samplings:
                cfgs.append(("FirstDerivative", dict(dims=[n], axis=-1 if (n + order) % 2 else 0, sampling=s, kind=kind, edge=edge, order=order)))
        ns = range(n0, 8) if thorough else sorted({n0, n0 + 1, 5})
        for n in ns:
            for dims, axis in nd_shapes(n)[2:]:
                for s in (samplings if thorough else (r.choice(samplings),)):
                    cfgs.append(("FirstDerivative", dict(dims=list(dims), axis=axis, sampling=s, kind=kind, edge=edge, order=order)))
    # SecondDerivative
    for kind, edge in itertools.product(KINDS, (False, True)):
        n0 = 3 if (kind == "centered" and edge) else 1
        for n in range(n0, 10):
            for s in samplings:
                cfgs.append(("SecondDerivative", dict(dims=[n], axis=-1 if n % 2 else 0, sampling=s, kind=kind, edge=edge)))
        ns = range(n0, 8) if thorough else sorted({n0, n0 + 1, 5})
        for n in ns:
            for dims, axis in nd_shapes(n)[2:]:
                for s in (samplings if thorough else (r.choice(samplings),)):
                    cfgs.append(("SecondDerivative", dict(dims=list(dims), axis=axis, sampling=s, kind=kind, edge=edge)))
    # CausalIntegration
    for kind, rf in itertools.product(("full", "half", "trapezoidal"), (False, True)):
        n0 = 2 if rf else 1
        for n in range(n0, 10):
            for s in samplings:
                cfgs.append(("CausalIntegration", dict(dims=[n], axis=-1 if n % 2 else 0, sampling=s, kind=kind, removefirst=rf)))
        ns = range(n0, 7) if thorough else sorted({n0, 4})
        for n in ns:
            for dims, axis in nd_shapes(n)[2:]:
                for s in (samplings if thorough else (r.choice(samplings),)):
                    cfgs.append(("CausalIntegration", dict(dims=list(dims), axis=axis, sampling=s, kind=kind, removefirst=rf)))
    # Laplacian
    lap_shapes = [((3, 3), (-2, -1)), ((4, 5), (-2, -1)), ((4, 5), (0, 1)), ((5, 4), (1, 0)), ((3, 4, 3), (-2, -1)),
                  ((3, 4, 3), (0, 1)), ((3, 4, 3), (0, 2)), ((3, 3, 4), (0, 1, 2)), ((4, 3, 3), (2, 0, 1))]
    if thorough:
        lap_shapes += [((6, 3), (0, 1)), ((3, 7), (-1, -2)), ((4, 4, 4), (-3, -1)), ((3, 5, 3), (1, 2, 0))]
    for (dims, axes), kind, edge in itertools.product(lap_shapes, KINDS, (False, True)):
        k = len(axes)
        wss = [((1,) * k, (1,) * k), (tuple([2, 3, 0.5][:k]), tuple([0.5, 2, 1][:k]))]
        if thorough:
            wss.append((tuple([1, -1, 2][:k]), tuple([2, 2, 0.5][:k])))
        for w, s in wss:
            cfgs.append(("Laplacian", dict(dims=list(dims), axes=list(axes), weights=list(w), sampling=list(s), edge=edge, kind=kind)))
    # Gradient and directional derivatives
    gshapes = [(3, 4), (4, 3), (2, 3, 4)] + ([(5, 3), (3, 3, 3)] if thorough else [])
    for dims, kind, edge in itertools.product(gshapes, KINDS, (False, True)):
        nd = len(dims)
        if edge and min(dims) < 2:
            continue
        for s in ([(1,) * nd, tuple([0.5, 2, 1][:nd])]):
            cfgs.append(("Gradient", dict(dims=list(dims), sampling=list(s), edge=edge, kind=kind)))
            N = int(np.prod(dims))
            vconst = [[0.5, -2.0, 1.0][a] for a in range(nd)]
            vfield = [float(r.randint(-4, 4)) / 2 for _ in range(nd * N)]
            for v, vshape in ((vconst, [nd]), (vfield, [nd] + list(dims))):
                cfgs.append(("FirstDirectionalDerivative", dict(dims=list(dims), v=v, vshape=vshape, sampling=list(s), edge=edge, kind=kind)))
                if kind == "centered" and N <= 12:
                    cfgs.append(("SecondDirectionalDerivative", dict(dims=list(dims), v=v, vshape=vshape, sampling=list(s), edge=edge)))
    return cfgs


# ------------------------------------------------------------------ Coq case emission
def sparse(Mx):
    out = []
    for i, j in zip(*np.nonzero(Mx)):
        out.append("(%d, %d, %s)" % (i, j, common.qlit(float(Mx[i, j]))))
    return "[" + "; ".join(out) + "]"


def b(x):
    return "true" if x else "false"


def axes4(dims, axes, weights, sampling):
    out = []
    for ax, w, s in zip(axes, weights, sampling):
        o, n, inner = oni(dims, ax)
        out.append("(%d, %d, %s, %s)" % (n, inner, common.qlit(float(w)), common.qlit(float(s))))
    return "[" + "; ".join(out) + "]"


def emit(cid, family, p, A, B):
    sa, sb = sparse(A), sparse(B)
    if family == "FirstDerivative":
        o, n, i = oni(p["dims"], p["axis"])
        return "mkFD %d %s %s %s %s %d %d %d %s %s" % (cid, CK[p["kind"]], b(p["order"] == 5), b(p["edge"]),
                                                        common.qlit(float(p["sampling"])), o, n, i, sa, sb)
    if family == "SecondDerivative":
        o, n, i = oni(p["dims"], p["axis"])
        return "mkSD %d %s %s %s %d %d %d %s %s" % (cid, CK[p["kind"]], b(p["edge"]), common.qlit(float(p["sampling"])), o, n, i, sa, sb)
    if family == "CausalIntegration":
        o, n, i = oni(p["dims"], p["axis"])
        return "mkCI %d %s %s %s %d %d %d %s %s" % (cid, CIK[p["kind"]], b(p["removefirst"]), common.qlit(float(p["sampling"])), o, n, i, sa, sb)
    N = int(np.prod(p["dims"]))
    nd = len(p["dims"])
    if family == "Laplacian":
        return "mkLap %d %s %s %d %s %s %s" % (cid, CK[p["kind"]], b(p["edge"]), N,
                                               axes4(p["dims"], p["axes"], p["weights"], p["sampling"]), sa, sb)
    ax = axes4(p["dims"], range(nd), [1] * nd, p["sampling"])
    if family == "Gradient":
        return "mkGrad %d %s %s %d %s %s %s" % (cid, CK[p["kind"]], b(p["edge"]), N, ax, sa, sb)
    v = p["v"] if len(p["v"]) == nd * N else [x for x in p["v"] for _ in range(N)]
    if family == "FirstDirectionalDerivative":
        return "mkDD1 %d %s %s %d %s %s %s %s" % (cid, CK[p["kind"]], b(p["edge"]), N, ax, common.vlit(v), sa, sb)
    if family == "SecondDirectionalDerivative":
        return "mkDD2 %d %s %d %s %s %s %s" % (cid, b(p["edge"]), N, ax, common.vlit(v), sa, sb)
    raise KeyError(family)


HEADER = ("From Coq Require Import QArith Qcanon ZArith List.\nFrom PV Require Import Dict QcInst Check Slice Deriv Deriv2 Causal Axis AxisOps CheckC07a.\n"
          "Import ListNotations.\nOpen Scope nat_scope.\n")

_ENTRY = re.compile(r"\(\s*(\d+)\s*,\s*\[([^\]]*)\]\s*\)")


def parse_z(out):
    rc, txt = out
    m = re.search(r"=\s*(.*?)\s*:\s*list", txt, re.S)
    if rc != 0 or not m:
        raise RuntimeError("coq evaluation failed:\n" + txt[-3000:])
    body = m.group(1).replace("%nat", "").replace("%Z", "")
    res = []
    for mm in _ENTRY.finditer(body):
        res.append((int(mm.group(1)), [int(z) for z in re.findall(r"-?\d+", mm.group(2))]))
    return res


# ------------------------------------------------------------------ replay
def replay(rp):
    op = build(rp["family"], rp["params"])
    m, n = op.shape
    if rp.get("mode", "forward") == "forward":
        e = np.zeros(n); e[rp["unit_index"]] = 1.0
        y = op.matvec(e)
    else:
        e = np.zeros(m); e[rp["unit_index"]] = 1.0
        y = op.rmatvec(e)
    obs = float(y[rp["out_index"]])
    doc = float(Fraction(rp["documented"]))
    print("%s %s: %s(e_%d)[%d] = %r, documented %s = %r" % (rp["family"], rp["params"], rp.get("mode", "forward"),
                                                            rp["unit_index"], rp["out_index"], obs, rp["documented"], doc))
    bad = abs(obs - doc) > 1e-9 * (1 + abs(doc))
    print("reproduced" if bad else "not reproduced")
    return 1 if bad else 0


# ------------------------------------------------------------------ run
def run(R, tier):
    t0 = time.time()
    ensure_built()
    thms, axioms = common.props_assumptions(PROPS)
    if axioms and not set(axioms) <= common.ALLOWED_AXIOMS:
        R.violation("Props/C07a.v depends on unexpected axioms %s" % axioms, {"theorem_file": "Props/C07a.v", "axioms": axioms}, no_input=True)
    cfgs = gen_configs(tier)
    recs = []
    lines = []
    for cid, (fam, p) in enumerate(cfgs, start=1):
        try:
            op = build(fam, p)
            A, B = matrices(op)
        except Exception as ex:      # a documented configuration must not raise
            R.violation("%s%s raised %s: %s" % (fam, p, type(ex).__name__, ex),
                        {"family": fam, "params": p, "error": "%s: %s" % (type(ex).__name__, ex)})
            continue
        recs.append((cid, fam, p, A, B))
        lines.append((cid, "(" + emit(0, fam, p, A, B).replace(" 0 ", " @ID@ ", 1) + ")"))
    # canary: a correct FirstDerivative case with one entry of the forward matrix moved by 1/2
    cfam, cp = "FirstDerivative", dict(dims=[5], axis=0, sampling=1.0, kind="centered", edge=True, order=3)
    cA, cB = matrices(build(cfam, cp))
    cA = cA.copy(); cA[2, 3] += 0.5
    CANARY = len(cfgs) + 1
    lines.append((CANARY, "(" + emit(0, cfam, cp, cA, cB).replace(" 0 ", " @ID@ ", 1) + ")"))
    t_py = time.time() - t0
    d = common.workdir("C07a")
    # balance shards by literal size
    nsh = min(common.NPROC * 2, max(1, len(lines) // 8))
    shards = [[] for _ in range(nsh)]
    sizes = [0] * nsh
    for cid, l in sorted(lines, key=lambda t: -len(t[1])):
        k = sizes.index(min(sizes))
        shards[k].append((cid, l)); sizes[k] += len(l) + 2000
    names = []
    for k, sh in enumerate(shards):
        nm = "c07a_%d" % k
        with open(os.path.join(d, nm + ".v"), "w") as f:
            # ids are local to the shard (small nat literals); (shard, local id) -> configuration id
            f.write(HEADER + "Eval vm_compute in (runall [\n " + ";\n ".join(l.replace("@ID@", str(j), 1) for j, (_, l) in enumerate(sh)) + "]).\n")
        names.append(nm)
    t1 = time.time()
    outs = common.run_coq_files(d, names)
    t_coq = time.time() - t1
    fails = {}
    for k, nm in enumerate(names):
        for lid, zs in parse_z(outs[nm]):
            fails.setdefault(shards[k][lid][0], []).append(zs)
    if CANARY not in fails or not any(z[0] == 1 and z[1:3] == [2, 3] for z in fails[CANARY]):
        raise SystemExit("C07a: canary case was not reported as failing - pipeline broken")
    fails.pop(CANARY)
    nviol = 0
    perfam = {}
    discharged = 0
    nontriv = set()
    famcount = {}
    for cid, fam, p, A, B in recs:
        famcount[fam] = famcount.get(fam, 0) + 1
        if np.abs(A).max(initial=0) > 0:
            nontriv.add(fam + json.dumps(p, sort_keys=True))
        fz = fails.get(cid, [])
        codes = {z[0] for z in fz}
        if not codes:
            discharged += 1
            continue
        for z in fz:
            if z[0] not in codes:
                continue
            code, i, j = z[0], z[1], z[2]
            doc = Fraction(z[3], z[4]) if len(z) >= 5 and z[4] else Fraction(0)
            mode = "adjoint" if code == 3 else "forward"
            Mx = B if code == 3 else A
            obs = float(Mx[i, j]) if 0 <= i < Mx.shape[0] and 0 <= j < Mx.shape[1] else None
            what = {1: "forward matrix differs from the documented formula", 2: "forward differs from the code-shaped model (model out of date or behaviour changed)",
                    3: "adjoint matrix differs from the code-shaped adjoint / transposed documented matrix"}.get(code, "code %d" % code)
            perfam[fam] = perfam.get(fam, 0) + 1
            if perfam[fam] > 4:            # a few minimal replays per family are enough
                nviol += 1
                break
            rp = {"part": "c07a", "family": fam, "params": p, "mode": mode, "unit_index": int(j), "out_index": int(i),
                  "documented": str(doc), "observed": obs, "check_code": code}
            R.violation("%s: %s %s: %s(e_%d)[%d] = %r, documented %s" % (what, fam, p, mode, j, i, obs, doc), rp)
            nviol += 1
            break
    evals = sum(A.shape[0] + A.shape[1] for _, _, _, A, _ in recs)
    res = dict(configs=len(recs), failing=len([c for c in fails]), violations=nviol, theorems=thms, axioms=axioms,
               t_python=round(t_py, 1), t_coq=round(t_coq, 1), families=famcount, evaluations=evals,
               distinct_nontrivial=len(nontriv), discharged=discharged)
    R.cov.setdefault("parts", {})["C07a"] = {k: v for k, v in res.items() if k != "theorems"}
    R.samples += [{"family": f, "params": p, "shape": list(A.shape)} for _, f, p, A, _ in recs[::max(1, len(recs) // 5)]][:6]
    return res


def main(tier):
    R = common.Report(PID, tier)
    common.coq_build()
    res = run(R, tier)
    R.cov.update(
        obligations=len(res["theorems"]) + res["configs"], discharged=len(res["theorems"]) + res["discharged"],
        checker_cmd="coqc 8.16.1: Ops/Slice Deriv Deriv2 DerivSpec DerivStencil Causal DerivND.v, Corr/CheckC07a.v, Props/C07a.v (Print Assumptions) + coqc .work/C07a/c07a_*.v (vm_compute)",
        theorems=res["theorems"], axioms_reported=res["axioms"], evaluations=res["evaluations"],
        distinct_nontrivial=res["distinct_nontrivial"],
        rule="one case per (family, constructor arguments); evaluations = unit-vector applications used to extract forward and adjoint "
             "matrices; non-trivial = forward matrix not identically zero; each case is compared entrywise in Coq with the documented "
             "matrix, the code-shaped forward model and the code-shaped adjoint model",
        configurations=res["configs"], families=res["families"])
    return R.finish()
