"""C10, solver-object REUSE: one CG / CGLS / LSQR object used for two and three
successive problems (different y, x0, niter, damp, calc_var), via solve(), via
setup + run + finalize and via a setup + step loop.  Every diagnostic of each
later solve (returned tuple incl. iiter / istop / r1norm / r2norm / norm
estimates / var / cost, the solver attributes, callback count and arguments,
Callbacks on_step_begin / on_step_end traces) must equal what a FRESH object
given the same arguments produces (1e-12), and must obey the bookkeeping rules
(len(cost) = 1 + iiter, callbacks = iterations performed by run)."""
import numpy as np

from . import common
from . import c09_common as cc

MODES = ("solve", "setup-run-finalize", "setup-step-loop")


def make_solver(solver, Op, rec):
    from pylops.optimization.callback import Callbacks
    from pylops.optimization.cls_basic import CG, CGLS, LSQR

    class Tr(Callbacks):
        def on_step_begin(self, s, x):
            rec["begins"].append((int(s.iiter), np.array(x, copy=True)))

        def on_step_end(self, s, x):
            rec["ends"].append((int(s.iiter), len(s.cost)))
    if solver == "lsqr":
        s = LSQR(Op)              # LSQR.__init__ takes no callbacks argument; the installed wrappers read self.callbacks at call time
        s.callbacks = [Tr()]
    else:
        s = {"cg": CG, "cgls": CGLS}[solver](Op, callbacks=[Tr()])
    s.callback = lambda x: rec["cbs"].append(np.array(x, copy=True))
    return s


def run_job(solver, s, rec, job, mode):
    """One problem on the solver object s; returns everything observable."""
    for k in ("cbs", "begins", "ends"):
        del rec[k][:]
    y = job["y"].copy()
    x0 = None if job["x0"] is None else job["x0"].copy()
    ni = job["niter"]
    if solver == "cg":
        kw = dict(y=y, x0=x0, niter=ni, tol=0.0)
    elif solver == "cgls":
        kw = dict(y=y, x0=x0, niter=ni, damp=job["damp"], tol=0.0)
    else:
        kw = dict(y=y, x0=x0, damp=job["damp"], atol=0, btol=0, conlim=0, niter=ni, calc_var=job["calc_var"])
    if mode == "solve":
        ret = s.solve(**kw)
        x = ret[0]
    else:
        x = s.setup(**kw)
        if mode == "setup-run-finalize":
            x = s.run(x, ni)
        else:
            for _ in range(ni):
                x = s.step(x)
        s.finalize()
        ret = None
    names = {"cg": ["iiter"], "cgls": ["istop", "iiter", "r1norm", "r2norm"],
             "lsqr": ["istop", "iiter", "r1norm", "r2norm", "anorm", "acond", "arnorm", "xnorm"]}[solver]
    out = {"x": np.array(x, copy=True), "cost": np.array(s.cost, dtype=float).copy(), "attrs": {a: float(np.real(getattr(s, a))) for a in names},
           "cbs": [v.copy() for v in rec["cbs"]], "begins": [(i, v.copy()) for i, v in rec["begins"]], "ends": list(rec["ends"])}
    if solver == "lsqr":
        out["var"] = None if s.var is None else np.array(s.var, copy=True)
    if ret is not None:
        out["ret"] = [None if r is None else np.array(r, copy=True) for r in ret]
    return out


def same(a, b, tol=1e-12):
    if a is None or b is None:
        return a is None and b is None
    a, b = np.asarray(a), np.asarray(b)
    if a.shape != b.shape:
        return False
    if a.size == 0:
        return True
    with np.errstate(invalid="ignore"):
        d = np.abs(a - b)
        ok = (d <= tol * (1 + np.abs(b))) | ((a == b) | (np.isnan(a) & np.isnan(b)))
    return bool(np.all(ok))


def diff(o, f, mode):
    """What differs between the reused object's observation o and the fresh object's f."""
    bad = []
    if not same(o["x"], f["x"]):
        bad.append("x")
    if not same(o["cost"], f["cost"]):
        bad.append("cost (len %d vs %d)" % (len(o["cost"]), len(f["cost"])))
    for a in f["attrs"]:
        if not same(o["attrs"][a], f["attrs"][a]):
            bad.append("%s=%.6g vs %.6g" % (a, o["attrs"][a], f["attrs"][a]))
    if len(o["cbs"]) != len(f["cbs"]) or not all(same(u, v) for u, v in zip(o["cbs"], f["cbs"])):
        bad.append("callbacks (%d vs %d calls)" % (len(o["cbs"]), len(f["cbs"])))
    if [i for i, _ in o["begins"]] != [i for i, _ in f["begins"]] or not all(same(u[1], v[1]) for u, v in zip(o["begins"], f["begins"])):
        bad.append("on_step_begin trace (%d vs %d)" % (len(o["begins"]), len(f["begins"])))
    if o["ends"] != f["ends"]:
        bad.append("on_step_end trace (%d vs %d)" % (len(o["ends"]), len(f["ends"])))
    if "var" in f and not same(o.get("var"), f["var"]):
        bad.append("var")
    if "ret" in f:
        if len(o["ret"]) != len(f["ret"]) or not all(same(u, v) for u, v in zip(o["ret"], f["ret"])):
            bad.append("returned tuple")
    # bookkeeping rules on the reused object's own observation
    it = int(o["attrs"]["iiter"])
    if len(o["cost"]) != 1 + it:
        bad.append("len(cost)=%d but iiter=%d" % (len(o["cost"]), it))
    if mode != "setup-step-loop" and len(o["cbs"]) != it:
        bad.append("callback called %d times but iiter=%d" % (len(o["cbs"]), it))
    return bad


def check_sequence(solver, A, jobs, mode):
    """Returns list of (job index, what differs)."""
    import pylops
    Op = pylops.MatrixMult(A.copy(), dtype=A.dtype)
    rec = {"cbs": [], "begins": [], "ends": []}
    s = make_solver(solver, Op, rec)
    bad = []
    for j, job in enumerate(jobs):
        o = run_job(solver, s, rec, job, mode)
        frec = {"cbs": [], "begins": [], "ends": []}
        f = run_job(solver, make_solver(solver, Op, frec), frec, job, mode)
        d = diff(o, f, mode)
        if d:
            bad.append((j, d))
    return bad


def build(tier):
    nsd = {"quick": 2, "thorough": 6}[tier]
    seqs = []
    for cplx in (False, True):
        for kind in ("spd", "tall", "wide"):
            for sd in range(nsd):
                r = common.rng("C10reuse", kind, cplx, sd)
                sysd = cc.gen_system(r, kind, cplx)
                n, m = sysd["n"], sysd["m"]
                for solver in (("cg", "cgls", "lsqr") if kind == "spd" else ("cgls", "lsqr")):
                    A = sysd["H"] if solver == "cg" else sysd["A"]
                    jobs = []
                    nis = [3, 2, 5] if r.random() < 0.5 else [4, 1, 3]
                    for j in range(3):
                        y = cc._ints(r, -9, 9, (A.shape[0],), cplx)
                        x0 = None if (j + sd) % 2 == 0 else cc._ints(r, -5, 5, (n,), cplx)
                        jobs.append({"y": y, "x0": x0, "niter": nis[j], "damp": [0.0, 0.5, 3.0][(j + sd) % 3] if solver != "cg" else 0.0,
                                     "calc_var": (j + sd) % 2 == 0})
                    for mode in MODES:
                        for nj in (2, 3):
                            seqs.append({"solver": solver, "kind": kind, "cplx": cplx, "seed": sd, "A": A, "jobs": jobs[:nj], "mode": mode})
    return seqs


def describe(q):
    return "%s %s %dx%d %s reuse x%d via %s: %s" % (
        q["solver"], q["kind"], q["A"].shape[0], q["A"].shape[1], "complex" if q["cplx"] else "real", len(q["jobs"]), q["mode"],
        "; ".join("niter=%d x0=%s damp=%s calc_var=%s" % (j["niter"], "None" if j["x0"] is None else "given", j["damp"], j["calc_var"]) for j in q["jobs"]))


def _ser(v):
    return None if v is None else [[float(np.real(t)), float(np.imag(t))] for t in np.asarray(v).ravel()]


def _des(L, cplx):
    if L is None:
        return None
    a = np.array([complex(t[0], t[1]) for t in L])
    return a if cplx else a.real.copy()


def replay_dict(q, detail):
    return {"solver": q["solver"], "kind": "reuse", "detail": detail, "mode": q["mode"], "cplx": bool(q["cplx"]), "shape": list(q["A"].shape),
            "A": _ser(q["A"]), "jobs": [{"y": _ser(j["y"]), "x0": _ser(j["x0"]), "niter": j["niter"], "damp": j["damp"], "calc_var": j["calc_var"]}
                                        for j in q["jobs"]],
            "call": "s = %s(MatrixMult(A), callbacks=[...]); for each job in order: %s on the SAME object s; compare with a fresh object" % (
                q["solver"].upper(), q["mode"])}


def replay(rp):
    A = _des(rp["A"], rp["cplx"]).reshape(rp["shape"])
    jobs = [{"y": _des(j["y"], rp["cplx"]), "x0": _des(j["x0"], rp["cplx"]), "niter": j["niter"], "damp": j["damp"], "calc_var": j["calc_var"]}
            for j in rp["jobs"]]
    bad = check_sequence(rp["solver"], A, jobs, rp["mode"])
    for j, d in bad:
        print("reproduced: solve #%d on the reused object differs from a fresh object: %s" % (j + 1, ", ".join(d)))
    if not bad:
        print("not reproduced")
    return 1 if bad else 0


def extra(R, tier):
    seqs = build(tier)
    ok = 0
    for q in seqs:
        try:
            bad = check_sequence(q["solver"], q["A"], q["jobs"], q["mode"])
        except Exception as e:
            bad = [(-1, ["%s: %s" % (type(e).__name__, e)])]
        if not bad:
            ok += 1
            continue
        j, d = bad[0]
        what = "solve #%d on a reused %s object differs from a fresh object given the same arguments: %s [%s]" % (
            j + 1, q["solver"].upper(), ", ".join(d), describe(q))
        R.violation("reuse: " + what, replay_dict(q, what))
    return {"n": len(seqs), "ok": ok, "nontriv": len(seqs),
            "rule": "one solver object (CG, CGLS, LSQR; real / complex; square, tall, wide) solved 2 and 3 times with different y, x0 in {None, given}, "
                    "niter, damp, calc_var alternating, via solve(), setup+run+finalize, setup+step loop; each later solve compared with a fresh object (1e-12)",
            "sample": describe(seqs[len(seqs) // 2])}
