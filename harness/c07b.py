"""C07 part (b) — index, convolution and interpolation operators compute the
documented operation (Pad, Restriction, Flip, Roll, Symmetrize, Sum, Identity,
Zero, Diagonal, Transpose, Convolve1D/2D/ND, Smoothing1D/2D, Interp, Bilinear,
Regression, LinearRegression).

Decision: theorems of Props/C07b.v (code-shaped model meets the index-wise
specification, is linear, and has the stated adjoint, for ALL sizes and
parameters) + per configuration the Coq-evaluated obligation
    matrix extracted from the implementation by unit vectors
      ~ I (x) specM(documented formula) (x) I      (entrywise, 1e-9)
The reference matrix is computed INSIDE Coq from the spec functions the
theorems are about; a numpy transcription of the same formulas is used only
to produce the replay (documented vs observed value) after a disagreement."""
import json
import os
import subprocess
import time
import warnings
from fractions import Fraction

import numpy as np

from . import common, l1

warnings.filterwarnings("ignore")
import pylops  # noqa: E402
import pylops.signalprocessing as sp  # noqa: E402

PID = "C07"
SUB = "C07b"
TOL = 1e-9
OWN_V = ["Ops/IndexOps.v", "Ops/Conv.v", "Ops/InterpOps.v", "Ops/ConvND.v", "Ops/BilinearOp.v", "Corr/CheckC07b.v", "Props/C07b.v"]

# Genuine defects of the unchanged tree found while building this check
# (proposed entries for known_findings.json; see the builder's report).
PROPOSED_KNOWN = [
    {"id": "KF-C07-conv1d-long-nd", "property": "C07", "family": "Convolve1D",
     "predicate": "1-d filter longer than dims[axis] on N-d dims",
     "what": "Convolve1D with a 1-d filter longer than dims[axis] on N-d dims sets dimsd = h.shape: the data has nh samples "
             "instead of prod(dims with dims[axis] := nh) and the fibres are mixed (convolve1d.py:_Convolve1Dlong.__init__)"},
]
# fixed in /repo (suppress nothing; reintroduction is a VIOLATION): 1a7ccab Convolve1D(method='overlapadd') on N-d dims,
# 1a499ab Restriction adjoint accumulates (also repairs Interp(kind='linear') with two positions in one cell).

# families whose documentation defines the adjoint action explicitly: a wrong adjoint matrix is reported here as well
ADJ_DOCUMENTED = {"Restriction", "Interp"}


def _long_nd(fam, p):
    """Predicate of KF-C07-conv1d-long-nd: 1-d filter longer than dims[axis] on N-d dims."""
    if fam != "Convolve1D" or len(p["dims"]) < 2:
        return False
    return len(p["h"]) > p["dims"][p.get("axis", -1)]



def prod(d):
    p = 1
    for a in d:
        p *= int(a)
    return p


def frac(x):
    return Fraction(x) if not isinstance(x, Fraction) else x


def _cv(v):
    """JSON list -> numpy vector; complex entries are [re, im] pairs."""
    if len(v) and isinstance(v[0], (list, tuple)):
        return np.array([complex(a, b) for a, b in v])
    return np.array(v, dtype=float)


def _is_c(v):
    return bool(len(v)) and isinstance(v[0], (list, tuple))


def _axis_split(dims, axis):
    nd = len(dims)
    ax = axis % nd
    return prod(dims[:ax]), int(dims[ax]), prod(dims[ax + 1:])


def _k3(outer, inner, M):
    return np.kron(np.eye(outer), np.kron(M, np.eye(inner)))


def _k3c(Rn, outer, inner, expr):
    if outer == 1 and inner == 1:
        return expr
    return "(kron3 %s %d %d %s)" % (Rn, outer, inner, expr)


def vl(v, c):
    return common.vlit(v, c)


# --------------------------------------------------------------------------
# families: build(p) -> operator ; ref(p) -> documented dense matrix (numpy,
# for search / replay only) ; coq(p) -> (ring-name, Gallina expression of the
# documented matrix built from the spec functions of Ops/*.v)
# --------------------------------------------------------------------------
FAM = {}


def family(name):
    def deco(cls):
        FAM[name] = cls
        return cls
    return deco


class Axis1D:
    """Operators acting along one axis of dims: matrix = I (x) M1 (x) I."""
    cplx = staticmethod(lambda p: False)

    @classmethod
    def ref(cls, p):
        o, n, i = _axis_split(p["dims"], p.get("axis", -1))
        return _k3(o, i, cls.ref1(p, n))

    @classmethod
    def coq(cls, p):
        o, n, i = _axis_split(p["dims"], p.get("axis", -1))
        Rn = "GR" if cls.cplx(p) else "QcR"
        return _k3c(Rn, o, i, cls.coq1(p, n, Rn))


def _dims(p):
    d = p["dims"]
    return d[0] if len(d) == 1 and p.get("scalar_dims") else tuple(d)


@family("Pad")
class Pad:
    @staticmethod
    def model(p):
        if len(p["dims"]) != 1:
            return None
        (b, a), n = p["pad"][0], p["dims"][0]
        return "(pad_fwd QcR %d %d)" % (b, a), "(pad_adj QcR %d %d)" % (b, n)

    cplx = staticmethod(lambda p: False)

    @staticmethod
    def build(p):
        pad = [tuple(a) for a in p["pad"]]
        if len(p["dims"]) == 1:
            return pylops.Pad(p["dims"][0], pad[0])
        return pylops.Pad(tuple(p["dims"]), pad)

    @staticmethod
    def ref(p):
        M = np.ones((1, 1))
        for n, (b, a) in zip(p["dims"], p["pad"]):
            P = np.zeros((b + n + a, n))
            for i in range(b, b + n):
                P[i, i - b] = 1
            M = np.kron(M, P)
        return M

    @staticmethod
    def coq(p):
        ms = ["specM QcR %d %d (pad_spec QcR %d %d)" % (b + n + a, n, b, n) for n, (b, a) in zip(p["dims"], p["pad"])]
        return "(kronl QcR [%s])" % "; ".join(ms)


@family("Restriction")
class Restriction(Axis1D):
    @staticmethod
    def model(p):
        if len(p["dims"]) != 1:
            return None
        il = common.natlist(p["iava"])
        return "(restr_fwd QcR %s)" % il, "(restr_adj QcR %d %s)" % (p["dims"][0], il)

    @staticmethod
    def build(p):
        return pylops.Restriction(_dims(p), p["iava"], axis=p.get("axis", -1), inplace=p.get("inplace", True))

    @staticmethod
    def ref1(p, n):
        M = np.zeros((len(p["iava"]), n))
        for i, l in enumerate(p["iava"]):
            M[i, l] = 1
        return M

    @staticmethod
    def coq1(p, n, Rn):
        return "(specM QcR %d %d (restr_spec QcR %s))" % (len(p["iava"]), n, common.natlist(p["iava"]))


@family("Flip")
class Flip(Axis1D):
    @staticmethod
    def model(p):
        return ("(flip_fwd QcR)", "(flip_fwd QcR)") if len(p["dims"]) == 1 else None

    @staticmethod
    def build(p):
        return pylops.Flip(_dims(p), axis=p.get("axis", -1))

    @staticmethod
    def ref1(p, n):
        M = np.zeros((n, n))
        for i in range(n):
            M[i, n - 1 - i] = 1
        return M

    @staticmethod
    def coq1(p, n, Rn):
        return "(specM QcR %d %d (flip_spec QcR %d))" % (n, n, n)


@family("Roll")
class Roll(Axis1D):
    @staticmethod
    def model(p):
        if len(p["dims"]) != 1:
            return None
        return "(roll_fwd QcR %s)" % common.zlit(p["shift"]), "(roll_adj QcR %s)" % common.zlit(p["shift"])

    @staticmethod
    def build(p):
        return pylops.Roll(_dims(p), axis=p.get("axis", -1), shift=p["shift"])

    @staticmethod
    def ref1(p, n):
        M = np.zeros((n, n))
        for j in range(n):
            M[(j + p["shift"]) % n, j] = 1       # element j moves to (j + shift) mod n
        return M

    @staticmethod
    def coq1(p, n, Rn):
        return "(specM QcR %d %d (roll_spec QcR %s %d))" % (n, n, common.zlit(p["shift"]), n)


@family("Symmetrize")
class Symmetrize(Axis1D):
    @staticmethod
    def model(p):
        return ("(symm_fwd QcR)", "(symm_adj QcR %d)" % p["dims"][0]) if len(p["dims"]) == 1 else None

    @staticmethod
    def build(p):
        return pylops.Symmetrize(_dims(p), axis=p.get("axis", -1))

    @staticmethod
    def ref1(p, n):
        M = np.zeros((2 * n - 1, n))
        for i in range(2 * n - 1):
            M[i, i - n + 1 if i >= n else n - 1 - i] = 1
        return M

    @staticmethod
    def coq1(p, n, Rn):
        return "(specM QcR %d %d (symm_spec QcR %d))" % (2 * n - 1, n, n)


@family("Sum")
class Sum(Axis1D):
    @staticmethod
    def build(p):
        return pylops.Sum(tuple(p["dims"]), axis=p.get("axis", -1))

    @staticmethod
    def ref1(p, n):
        return np.ones((1, n))

    @staticmethod
    def coq1(p, n, Rn):
        return "(specM QcR 1 %d (fun _ x => sum_spec QcR x))" % n


@family("Identity")
class Identity:
    @staticmethod
    def model(p):
        if len(p["N"]) != 1:
            return None
        return "(ident_fwd QcR %d %d)" % (p["N"][0], p["M"][0]), "(ident_adj QcR %d %d)" % (p["N"][0], p["M"][0])

    cplx = staticmethod(lambda p: False)

    @staticmethod
    def build(p):
        N, M = p["N"], p["M"]
        if len(N) == 1:
            return pylops.Identity(N[0], None if p.get("Mnone") else M[0], inplace=p.get("inplace", True))
        return pylops.Identity(tuple(N), None if p.get("Mnone") else tuple(M), inplace=p.get("inplace", True))

    @staticmethod
    def ref(p):
        A = np.ones((1, 1))
        for n, m in zip(p["N"], p["M"]):
            A = np.kron(A, np.eye(n, m))
        return A

    @staticmethod
    def coq(p):
        ms = ["specM QcR %d %d (ident_spec QcR %d)" % (n, m, m) for n, m in zip(p["N"], p["M"])]
        return "(kronl QcR [%s])" % "; ".join(ms)


@family("Zero")
class Zero:
    @staticmethod
    def model(p):
        return "(zero_fwd QcR %d)" % prod(p["N"]), "(zero_adj QcR %d)" % prod(p["M"])

    cplx = staticmethod(lambda p: False)

    @staticmethod
    def build(p):
        N, M = p["N"], p["M"]
        if len(N) == 1:
            return pylops.Zero(N[0], M[0])
        return pylops.Zero(tuple(N), tuple(M))

    @staticmethod
    def ref(p):
        return np.zeros((prod(p["N"]), prod(p["M"])))

    @staticmethod
    def coq(p):
        return "(specM QcR %d %d (fun _ _ => r0 QcR))" % (prod(p["N"]), prod(p["M"]))


@family("Diagonal")
class Diagonal(Axis1D):
    @staticmethod
    def model(p):
        if len(p["dims"]) != 1 and not p.get("full"):
            return None
        c = _is_c(p["d"])
        S, d = ("GS" if c else "QcS"), vl(_cv(p["d"]), c)
        return "(diag_fwd %s %s)" % (S, d), "(diag_adj %s %s)" % (S, d)

    cplx = staticmethod(lambda p: _is_c(p["d"]))

    @staticmethod
    def build(p):
        d = _cv(p["d"])
        if p.get("full"):
            return pylops.Diagonal(d.reshape(p["dims"]), dtype=d.dtype)
        return pylops.Diagonal(d, dims=tuple(p["dims"]), axis=p.get("axis", -1), dtype=d.dtype)

    @classmethod
    def ref(cls, p):
        if p.get("full"):
            return np.diag(_cv(p["d"]))
        return super().ref(p)

    @classmethod
    def coq(cls, p):
        if p.get("full"):
            c = _is_c(p["d"])
            n = len(p["d"])
            return "(specM %s %d %d (diag_spec %s %s))" % ("GR" if c else "QcR", n, n, "GS" if c else "QcS", vl(_cv(p["d"]), c))
        return super().coq(p)

    @staticmethod
    def ref1(p, n):
        return np.diag(_cv(p["d"]))

    @staticmethod
    def coq1(p, n, Rn):
        c = _is_c(p["d"])
        return "(specM %s %d %d (diag_spec %s %s))" % (Rn, n, n, "GS" if c else "QcS", vl(_cv(p["d"]), c))


@family("Transpose")
class Transpose:
    @staticmethod
    def model(p):
        if len(p["dims"]) != 2 or [a % 2 for a in p["axes"]] != [1, 0]:
            return None
        return "(transp2_fwd QcR %d %d)" % tuple(p["dims"]), "(transp2_adj QcR %d %d)" % tuple(p["dims"])

    cplx = staticmethod(lambda p: False)

    @staticmethod
    def build(p):
        return pylops.Transpose(tuple(p["dims"]), tuple(p["axes"]))

    @staticmethod
    def ref(p):
        dims = p["dims"]
        nd = len(dims)
        axes = [a % nd for a in p["axes"]]
        dimsd = [dims[a] for a in axes]
        N = prod(dims)
        M = np.zeros((N, N))
        for r in range(N):
            k = np.unravel_index(r, dimsd)
            idx = [0] * nd
            for a in range(nd):
                idx[axes[a]] = k[a]
            M[r, np.ravel_multi_index(idx, dims)] = 1
        return M

    @staticmethod
    def coq(p):
        nd = len(p["dims"])
        return "(transp_specM QcR %s %s)" % (common.natlist(p["dims"]), common.natlist([a % nd for a in p["axes"]]))


def _toeplitz(h, off, m, n):
    A = np.zeros((m, n), dtype=h.dtype)
    for i in range(m):
        for j in range(n):
            k = i - j + off
            if 0 <= k < len(h):
                A[i, j] = h[k]
    return A


@family("Convolve1D")
class Convolve1D(Axis1D):
    @staticmethod
    def model(p):
        if len(p["dims"]) != 1 or len(p["h"]) > p["dims"][0]:
            return None
        c = _is_c(p["h"])
        h = vl(_cv(p["h"]), c)
        return ("(conv_same_model %s %s %d)" % ("GR" if c else "QcR", h, p["offset"]),
                "(conv_adj_model %s %s %d)" % ("GS" if c else "QcS", h, p["offset"]))

    cplx = staticmethod(lambda p: _is_c(p["h"]))

    @staticmethod
    def build(p):
        h = _cv(p["h"])
        return sp.Convolve1D(_dims(p), h, offset=p["offset"], axis=p.get("axis", -1), method=p.get("method"), dtype=h.dtype)

    @staticmethod
    def ref1(p, n):
        h = _cv(p["h"])
        return _toeplitz(h, p["offset"], n if len(h) <= n else len(h), n)

    @staticmethod
    def coq1(p, n, Rn):
        c = _is_c(p["h"])
        nh = len(p["h"])
        return "(specM %s %d %d (conv_spec %s %s %d))" % (Rn, n if nh <= n else nh, n, Rn, vl(_cv(p["h"]), c), p["offset"])


@family("Smoothing1D")
class Smoothing1D(Axis1D):
    @classmethod
    def model(cls, p):
        if len(p["dims"]) != 1:
            return None
        ns = cls._ns(p)
        return ("(smooth_model QcR %d (q 1 %d))" % (ns, ns),
                "(conv_adj_model QcS (smooth_h QcR %d (q 1 %d)) %d)" % (ns, ns, (ns - 1) // 2))

    @staticmethod
    def build(p):
        return pylops.Smoothing1D(p["nsmooth"], _dims(p), axis=p.get("axis", -1))

    @staticmethod
    def _ns(p):
        return p["nsmooth"] + 1 if p["nsmooth"] % 2 == 0 else p["nsmooth"]

    @classmethod
    def ref1(cls, p, n):
        ns = cls._ns(p)
        M = np.zeros((n, n))
        for i in range(n):
            for l in range(-(ns - 1) // 2, (ns - 1) // 2 + 1):
                if 0 <= i + l < n:
                    M[i, i + l] = 1.0 / ns
        return M

    @classmethod
    def coq1(cls, p, n, Rn):
        ns = cls._ns(p)
        return "(specM QcR %d %d (conv_spec QcR (smooth_h QcR %d (q 1 %d)) %d))" % (n, n, ns, ns, (ns - 1) // 2)


def _h3(p):
    """(dims3, h3, offs3): the kernel as a 3-d array aligned with dims padded to 3 axes."""
    dims = list(p["dims"])
    nd = len(dims)
    h = np.array(p["h"], dtype=float)
    axes = sorted(a % nd for a in p["axes"])
    shape = [1] * nd
    offs = [0] * nd
    for k, a in enumerate(axes):
        shape[a] = h.shape[k]
        offs[a] = p["offset"][k]
    h = h.reshape(shape)
    while len(dims) < 3:
        dims = [1] + dims
        offs = [0] + offs
        h = h[None]
    return dims, h, offs


class _ConvN:
    cplx = staticmethod(lambda p: False)

    @staticmethod
    def model(p, exact_h=None):
        """conv2_model of Ops/ConvND.v: 2-d dims, 2-d kernel on both axes (in order)."""
        dims, nd = p["dims"], len(p["dims"])
        h = np.array(p["h"], dtype=float)
        if nd != 2 or h.ndim != 2 or sorted(a % nd for a in p["axes"]) != [0, 1]:
            return None
        hl = exact_h or "[" + "; ".join(common.vlit(r) for r in h) + "]"
        args = "%s %d %d %d %d %d" % (hl, h.shape[1], p["offset"][0], p["offset"][1], dims[0], dims[1])
        return "(conv2_model QcR %s)" % args, "(conv2_adj_model QcS %s)" % args

    @staticmethod
    def ref(p):
        dims, h, offs = _h3(p)
        N = prod(dims)
        M = np.zeros((N, N))
        for r in range(N):
            i = np.unravel_index(r, dims)
            for c in range(N):
                j = np.unravel_index(c, dims)
                k = [i[a] - j[a] + offs[a] for a in range(3)]
                if all(0 <= k[a] < h.shape[a] for a in range(3)):
                    M[r, c] = h[tuple(k)]
        return M

    @staticmethod
    def coq(p):
        dims, h, offs = _h3(p)
        hl = "[" + "; ".join("[" + "; ".join(common.vlit(r) for r in pl) + "]" for pl in h) + "]"
        return "(conv3_specM QcR %s %s %s)" % (common.natlist(dims), hl, common.natlist(offs))


@family("ConvolveND")
class ConvolveND(_ConvN):
    @staticmethod
    def build(p):
        return sp.ConvolveND(tuple(p["dims"]), np.array(p["h"], dtype=float), offset=tuple(p["offset"]),
                             axes=tuple(p["axes"]), method=p.get("method", "fft"))


@family("Convolve2D")
class Convolve2D(_ConvN):
    @staticmethod
    def build(p):
        return sp.Convolve2D(tuple(p["dims"]), np.array(p["h"], dtype=float), offset=tuple(p["offset"]),
                             axes=tuple(p["axes"]), method=p.get("method", "fft"))


@family("Smoothing2D")
class Smoothing2D(_ConvN):
    @staticmethod
    def build(p):
        return pylops.Smoothing2D(tuple(p["nsmooth"]), tuple(p["dims"]), axes=tuple(p["axes"]))

    @staticmethod
    def _p(p):
        ns = [n + 1 if n % 2 == 0 else n for n in p["nsmooth"]]
        q = dict(p)
        q["h"] = (np.ones(ns) / (ns[0] * ns[1])).tolist()
        q["offset"] = [(ns[0] - 1) // 2, (ns[1] - 1) // 2]
        return q

    @classmethod
    def ref(cls, p):
        return _ConvN.ref(cls._p(p))

    @classmethod
    def coq(cls, p):
        return _ConvN.coq(cls._p(p))

    @classmethod
    def model(cls, p):
        q = cls._p(p)
        k1, k2 = np.array(q["h"]).shape
        row = "[" + "; ".join(["(q 1 %d)" % (k1 * k2)] * k2) + "]"
        return _ConvN.model(q, exact_h="[" + "; ".join([row] * k1) + "]")


def _round_half_even(x):
    """numpy.round as documented: halves go to the nearest EVEN integer."""
    x = frac(x)
    f = x.numerator // x.denominator
    r = x - f
    if r < Fraction(1, 2):
        return f
    if r > Fraction(1, 2):
        return f + 1
    return f if f % 2 == 0 else f + 1


def _interp_pos(n, pos):
    return [Fraction(n - 1) - Fraction(1, 10 ** 10) if frac(x) >= n - 1 else frac(x) for x in pos]


@family("Interp")
class Interp(Axis1D):
    @staticmethod
    def model(p):
        if len(p["dims"]) != 1:
            return None
        n = p["dims"][0]
        pl = "[" + "; ".join(common.qlit(x) for x in p["iava"]) + "]"
        if p["kind"] == "nearest":
            return "(restr_fwd QcR (map qround %s))" % pl, "(restr_adj QcR %d (map qround %s))" % (n, pl)
        lw = "(interp_ls %d %s) (interp_ws %d %s)" % (n, pl, n, pl)
        return "(interp_fwd QcR %s)" % lw, "(interp_adj QcR %d %s)" % (n, lw)

    @staticmethod
    def build(p):
        return sp.Interp(_dims(p), np.array(p["iava"], dtype=float), axis=p.get("axis", -1), kind=p["kind"])[0]

    @staticmethod
    def ref1(p, n):
        pos = p["iava"]
        M = np.zeros((len(pos), n))
        if p["kind"] == "nearest":
            for i, x in enumerate(pos):
                M[i, _round_half_even(x)] = 1
        else:
            for i, x in enumerate(_interp_pos(n, pos)):
                l = int(x // 1)
                w = float(x - l)
                M[i, l] += 1 - w
                M[i, l + 1] += w
        return M

    @staticmethod
    def coq1(p, n, Rn):
        pl = "[" + "; ".join(common.qlit(x) for x in p["iava"]) + "]"
        if p["kind"] == "nearest":
            return "(specM QcR %d %d (restr_spec QcR (map qround %s)))" % (len(p["iava"]), n, pl)
        return "(interp_linear_specM %d %s)" % (n, pl)


@family("Bilinear")
class Bilinear:
    @staticmethod
    def model(p):
        dims = p["dims"]
        n1, n2, inner = dims[0], dims[1], prod(dims[2:])
        p0 = "[" + "; ".join(common.qlit(x) for x in p["iava"][0]) + "]"
        p1 = "[" + "; ".join(common.qlit(x) for x in p["iava"][1]) + "]"
        args = "(map pfloor %s) (map pfloor %s) (map pweight %s) (map pweight %s)" % (p0, p1, p0, p1)
        if len(dims) == 2:
            return "(bilin_code_fwd QcR %d %s)" % (n2, args), "(bilin_code_adj QcR %d %d %s)" % (n1 * n2, n2, args)
        return ("(bilin_batch_fwd QcR %d %d %s)" % (n2, inner, args),
                "(bilin_batch_adj QcR %d %d %d %s)" % (n1 * n2 * inner, n2, inner, args))

    cplx = staticmethod(lambda p: False)

    @staticmethod
    def build(p):
        return sp.Bilinear(np.array(p["iava"], dtype=float), tuple(p["dims"]))

    @staticmethod
    def ref(p):
        dims = p["dims"]
        n1, n2 = dims[0], dims[1]
        inner = prod(dims[2:])
        p0, p1 = p["iava"]
        M = np.zeros((len(p0), n1 * n2))
        for i, (a, b) in enumerate(zip(p0, p1)):
            t, l = int(np.floor(a)), int(np.floor(b))
            wt, wl = a - t, b - l
            for (ii, jj, w) in ((t, l, (1 - wt) * (1 - wl)), (t, l + 1, (1 - wt) * wl), (t + 1, l, wt * (1 - wl)), (t + 1, l + 1, wt * wl)):
                if w != 0 or (ii < n1 and jj < n2):
                    M[i, ii * n2 + jj] += w
        return np.kron(M, np.eye(inner))

    @staticmethod
    def coq(p):
        dims = p["dims"]
        inner = prod(dims[2:])
        p0 = "[" + "; ".join(common.qlit(x) for x in p["iava"][0]) + "]"
        p1 = "[" + "; ".join(common.qlit(x) for x in p["iava"][1]) + "]"
        e = "(bilinear_specM %d %d %s %s)" % (dims[0], dims[1], p0, p1)
        return e if inner == 1 else "(kron QcR %s (eye QcR %d))" % (e, inner)


@family("Regression")
class Regression:
    cplx = staticmethod(lambda p: False)

    @staticmethod
    def build(p):
        t = np.array(p["t"], dtype=float)
        if p.get("linear"):
            return pylops.LinearRegression(t)
        return pylops.Regression(t, p["order"])

    @staticmethod
    def ref(p):
        t = np.array(p["t"], dtype=float)
        return np.stack([t ** k for k in range(p["order"] + 1)], axis=1)

    @staticmethod
    def coq(p):
        return "(vander QcR %s %d)" % (common.vlit(p["t"]), p["order"])


# --------------------------------------------------------------------------
# configurations
# --------------------------------------------------------------------------
def _ivec(r, n, cplx=False, lo=-4, hi=4):
    if cplx:
        v = [[r.randint(-3, 3), r.randint(-3, 3)] for _ in range(n)]
        if not any(a or b for a, b in v):
            v[0] = [1, -2]
        return v
    v = [r.randint(lo, hi) for _ in range(n)]
    if not any(v):
        v[0] = 2
    return v


def _distinct(r, n, cplx=False):
    """Non-constant vector with pairwise distinct non-zero entries (a diagonal applied along the wrong axis must show)."""
    v = list(range(1, n + 1))
    r.shuffle(v)
    v = [a if k % 2 == 0 else -a - 1 for k, a in enumerate(v)]
    return [[a, r.randint(1, 3) * (1 if k % 2 else -1)] for k, a in enumerate(v)] if cplx else v


def _axes_of(dims):
    nd = len(dims)
    return list(range(nd)) + list(range(-nd, 0))


# all-different lengths AND shapes where dims[axis] equals another axis length (an operator that picks the
# wrong axis of equal length keeps every shape consistent and is only seen against the documented matrix)
ND_SHAPES_Q = [[3, 4], [2, 3, 4], [3, 3], [3, 2, 3], [2, 3, 3]]
ND_SHAPES_T = [[3, 4], [4, 3], [1, 5], [2, 3, 4], [3, 2, 2], [2, 1, 3], [3, 3], [4, 4], [3, 2, 3], [2, 3, 3], [4, 3, 4]]


def grid(tier):
    r = common.rng(SUB, "grid")
    th = tier == "thorough"
    nds = ND_SHAPES_T if th else ND_SHAPES_Q
    G = []

    def add(f, **p):
        G.append((f, p))

    sizes = list(range(1, 9))
    # ---- Pad
    for n in (sizes if th else [1, 2, 5, 8]):
        for b, a in ([(0, 0), (1, 0), (0, 2), (2, 3), (3, 1)] if th else [(0, 0), (1, 0), (0, 2), (2, 3)]):
            add("Pad", dims=[n], pad=[[b, a]])
    add("Pad", dims=[3, 3], pad=[[1, 0], [0, 2]])
    add("Pad", dims=[2, 3, 2], pad=[[0, 2], [1, 1], [1, 0]])
    add("Pad", dims=[2, 3], pad=[[1, 0], [0, 2]])
    add("Pad", dims=[3, 2], pad=[[0, 0], [1, 1]])
    add("Pad", dims=[2, 3, 2], pad=[[1, 1], [0, 2], [1, 0]])
    add("Pad", dims=[1, 2, 3], pad=[[0, 1], [2, 0], [0, 0]])
    # ---- Restriction
    for n in (sizes if th else [1, 3, 6, 8]):
        add("Restriction", dims=[n], iava=list(range(n)), scalar_dims=True)
        add("Restriction", dims=[n], iava=[0])
        add("Restriction", dims=[n], iava=[n - 1], inplace=False)
        if n > 2:
            for _ in range(3 if th else 1):
                k = r.randint(1, n - 1)
                add("Restriction", dims=[n], iava=r.sample(range(n), k))
    for d in nds:
        for ax in _axes_of(d):
            n = d[ax]
            add("Restriction", dims=d, axis=ax, iava=r.sample(range(n), max(1, n - 1)))
    # repeated indices (adjoint must accumulate)
    add("Restriction", dims=[5], iava=[1, 1, 3])
    add("Restriction", dims=[4], iava=[2, 0, 2, 2, 3], inplace=False)
    add("Restriction", dims=[1], iava=[0, 0])
    for d in nds:
        for ax in _axes_of(d):
            n = d[ax]
            add("Restriction", dims=d, axis=ax, iava=[n - 1, 0, n - 1] + ([1, 1] if n > 2 else []))
    # ---- Flip / Symmetrize
    for n in sizes:
        add("Flip", dims=[n], scalar_dims=bool(n % 2))
        add("Symmetrize", dims=[n], scalar_dims=bool(n % 2))
    for d in nds:
        for ax in _axes_of(d):
            add("Flip", dims=d, axis=ax)
            add("Symmetrize", dims=d, axis=ax)
    # ---- Roll
    for n in (sizes if th else [1, 2, 5, 8]):
        for s in sorted(set([-n - 1, -2, -1, 0, 1, 2, n, n + 1, 2 * n + 3])):
            add("Roll", dims=[n], shift=s)
    for d in nds:
        for ax in _axes_of(d):
            for s in (1, -2, d[ax] + 1, -2 * d[ax] - 1, 7):
                add("Roll", dims=d, axis=ax, shift=s)
    # ---- Sum
    for d in nds + [[5, 1], [1, 1]]:
        for ax in _axes_of(d):
            add("Sum", dims=d, axis=ax)
    # ---- Identity / Zero
    for N in [1, 3, 5, 8]:
        for M in [1, 3, 5, 8]:
            add("Identity", N=[N], M=[M], inplace=bool((N + M) % 4))
            if (N + M) % 3 == 0 or th:
                add("Zero", N=[N], M=[M])
    add("Identity", N=[4], M=[4], Mnone=True)
    for N, M in [([2, 3], [2, 3]), ([3, 4], [2, 3]), ([2, 3], [4, 3]), ([2, 3, 2], [2, 4, 3]), ([3, 3, 2], [1, 3, 2])]:
        add("Identity", N=N, M=M)
        add("Zero", N=N, M=M)
    # ---- Diagonal
    for n in (sizes if th else [1, 2, 5, 8]):
        for c in (False, True):
            add("Diagonal", dims=[n], d=_ivec(r, n, c))
    for d in nds:
        for ax in _axes_of(d):
            for c in (False, True):
                add("Diagonal", dims=d, axis=ax, d=_distinct(r, d[ax], c))
        for c in (False, True):
            add("Diagonal", dims=d, full=True, d=_ivec(r, prod(d), c))
    # ---- Transpose
    for d in [[1, 1], [2, 3], [3, 2], [4, 4], [1, 5], [5, 1]] + ([[3, 7], [8, 2]] if th else []):
        for axes in ([1, 0], [0, 1], [-1, -2], [-1, 0]):
            add("Transpose", dims=d, axes=axes)
    import itertools
    for d in [[2, 3, 4]] + ([[3, 2, 2], [1, 3, 2]] if th else []):
        for axes in itertools.permutations(range(3)):
            add("Transpose", dims=d, axes=list(axes))
        add("Transpose", dims=d, axes=[-1, 0, -2])
        add("Transpose", dims=d, axes=[-2, -1, -3])
    add("Transpose", dims=[2, 1, 3, 2], axes=[3, 0, 2, 1])
    # ---- Convolve1D short: every nh <= n, every offset
    k = 0
    for n in sizes:
        for nh in range(1, n + 1):
            for off in range(nh):
                k += 1
                if not th and n in (3, 4, 6, 7) and (k % 3):
                    continue
                c = (k % 5 == 0)
                add("Convolve1D", dims=[n], h=_ivec(r, nh, c), offset=off, method=[None, "direct", "fft"][k % 3],
                    scalar_dims=bool(k % 2))
    # long filter (nh > n): data has nh samples
    for n in (sizes if th else [1, 2, 5, 8]):
        for nh in (n + 1, n + 2, n + 4):
            for off in range(n):
                k += 1
                if not th and (k % 2):
                    continue
                add("Convolve1D", dims=[n], h=_ivec(r, nh, k % 5 == 0), offset=off, method=[None, "fft"][k % 2])
    for d in nds:
        for ax in _axes_of(d):
            n = d[ax]
            for nh in sorted(set([1, 2, min(3, n), n])):
                if nh > n:
                    continue
                for off in (range(nh) if th else sorted(set([0, nh // 2, nh - 1]))):
                    k += 1
                    add("Convolve1D", dims=d, axis=ax, h=_ivec(r, nh, k % 4 == 0), offset=off, method=[None, "fft"][k % 2])
    for d in nds:
        for ax in _axes_of(d):
            n = d[ax]
            for nh in sorted(set([1, 2, n])):
                for off in sorted(set([0, nh - 1])):
                    k += 1
                    add("Convolve1D", dims=d, axis=ax, h=_ivec(r, nh, k % 4 == 0), offset=off, method="overlapadd")
    add("Convolve1D", dims=[3, 2], axis=0, h=[1, 2, 3, 4, 5], offset=1)        # known finding KF-C07-conv1d-long-nd
    add("Convolve1D", dims=[2, 3], axis=-1, h=[1, -1, 2, 1], offset=2, method="fft")
    # ---- Smoothing1D
    for n in (sizes if th else [3, 5, 8]):
        for ns in (1, 2, 3, 4, 5, 7):
            if ns + (1 - ns % 2) <= n:
                add("Smoothing1D", dims=[n], nsmooth=ns)
    for d in nds:
        for ax in _axes_of(d):
            if d[ax] >= 3:
                add("Smoothing1D", dims=d, axis=ax, nsmooth=3)
    # ---- Convolve2D / ConvolveND / Smoothing2D
    for d, hs in [([3, 4], (2, 3)), ([4, 4], (3, 3)), ([5, 3], (1, 2)), ([3, 3], (3, 1))]:
        for off in sorted(set([(0, 0), (hs[0] // 2, hs[1] // 2), (hs[0] - 1, hs[1] - 1), (0, hs[1] - 1)])):
            for m in ("fft", "direct"):
                add("Convolve2D", dims=d, h=np.array(_ivec(r, hs[0] * hs[1])).reshape(hs).tolist(), offset=list(off),
                    axes=[-2, -1], method=m)
    for d, axes, hs in [([2, 3, 4], [0, 1], (2, 2)), ([2, 3, 4], [1, 2], (3, 2)), ([3, 2, 4], [0, 2], (2, 3)),
                        ([2, 3, 4], [-2, -1], (2, 3)), ([3, 3, 2], [-3, -1], (3, 2))]:
        for off in [(0, 0), (hs[0] - 1, hs[1] // 2)]:
            add("Convolve2D", dims=d, h=np.array(_ivec(r, hs[0] * hs[1])).reshape(hs).tolist(), offset=list(off), axes=axes,
                method="fft")
    for d, hs in [([2, 3, 3], (2, 2, 3)), ([3, 3, 3], (3, 1, 2))]:
        for off in [(0, 0, 0), tuple(s // 2 for s in hs), tuple(s - 1 for s in hs)]:
            add("ConvolveND", dims=d, h=np.array(_ivec(r, prod(hs))).reshape(hs).tolist(), offset=list(off), axes=[0, 1, 2],
                method="direct" if off[0] else "fft")
    add("ConvolveND", dims=[6], h=[1, -2, 3], offset=[1], axes=[0], method="direct")
    add("ConvolveND", dims=[3, 5], h=[1, -2, 3], offset=[2], axes=[1], method="fft")
    for d, axes, ns in [([4, 5], [-2, -1], (3, 3)), ([5, 4], [0, 1], (1, 3)), ([3, 5], [0, 1], (2, 4)), ([3, 3, 3], [0, 2], (3, 3)),
                        ([2, 3, 3], [1, 2], (3, 1))]:
        add("Smoothing2D", dims=d, axes=axes, nsmooth=list(ns))
    # ---- Interp (dyadic positions)
    for n in (sizes[1:] if th else [2, 3, 5, 8]):
        add("Interp", dims=[n], kind="nearest", iava=sorted(set([0, n - 1])))
        add("Interp", dims=[n], kind="nearest", iava=sorted(set([0.25, max(0.25, n - 1.25)])))
        add("Interp", dims=[n], kind="linear", iava=[0.0] if n == 2 else [0.0, 0.75, n - 1.5])
        add("Interp", dims=[n], kind="linear", iava=[0.5, n - 1], scalar_dims=True)         # last sample: forced to n-1-eps
        if n > 3:
            add("Interp", dims=[n], kind="linear", iava=[n - 2.125, 1.0, n + 0.5])        # beyond the last sample, unsorted
    # nearest with exact halves, even and odd floors (np.round rounds half to even: 0.5->0, 1.5->2, 2.5->2)
    for n in (sizes[1:] if th else [2, 3, 5, 8]):
        add("Interp", dims=[n], kind="nearest", iava=[0.5])
        if n >= 3:
            add("Interp", dims=[n], kind="nearest", iava=[0.5, 1.5])
            add("Interp", dims=[n], kind="nearest", iava=[n - 1.5])
        if n >= 5:
            add("Interp", dims=[n], kind="nearest", iava=[2.5, 3.5, 0.5, 0.75])
        if n >= 8:
            add("Interp", dims=[n], kind="nearest", iava=[6.5, 4.5, 1.5, 0.25])
    for d in nds:
        for ax in _axes_of(d):
            n = d[ax]
            if n >= 2:
                add("Interp", dims=d, axis=ax, kind="nearest", iava=[0.5, 1.5] if n >= 3 else [0.5])
            if n >= 4:
                add("Interp", dims=d, axis=ax, kind="nearest", iava=[2.5, 0.5])
    # two or more distinct positions in one cell [l, l+1) (adjoint must accumulate)
    add("Interp", dims=[5], kind="linear", iava=[0.25, 0.5, 2.0])
    add("Interp", dims=[4], kind="linear", iava=[2.75, 2.125, 2.5, 0.5])
    add("Interp", dims=[2], kind="linear", iava=[0.25, 0.75, 1.0])
    for d in nds:
        for ax in _axes_of(d):
            if d[ax] >= 2:
                add("Interp", dims=d, axis=ax, kind="linear", iava=[0.25, 0.5, d[ax] - 1.125])
    for d in nds:
        for ax in _axes_of(d):
            n = d[ax]
            if n >= 3:
                add("Interp", dims=d, axis=ax, kind="linear", iava=[0.25, n - 1.75])
                add("Interp", dims=d, axis=ax, kind="nearest", iava=[0.75, n - 1])
    # ---- Bilinear
    add("Bilinear", dims=[4, 5], iava=[[0.5, 2.25, 1.0], [1.5, 0.25, 3.0]])
    add("Bilinear", dims=[3, 3], iava=[[0.0, 1.5], [0.0, 1.125]])
    add("Bilinear", dims=[2, 2], iava=[[0.5], [0.25]])
    add("Bilinear", dims=[4, 5, 2], iava=[[0.5, 2.75], [1.5, 3.5]])
    add("Bilinear", dims=[3, 4, 2, 2], iava=[[1.25, 0.5, 0.0], [2.5, 0.75, 1.0]])
    add("Bilinear", dims=[3, 4], iava=[[0.25, 0.5, 0.75, 1.5], [1.25, 1.75, 1.5, 1.25]])      # several positions in one cell
    add("Bilinear", dims=[2, 2, 3], iava=[[0.25, 0.75], [0.5, 0.5]])
    add("Bilinear", dims=[5, 2], iava=[[3.5, 0.0, 2.125], [0.0, 0.5, 0.875]])
    # 2-d kernels of every small shape / offset on 2-d arrays (executable conv2_model)
    kk = 0
    for d in ([[4, 5], [3, 3], [2, 6]] if not th else [[4, 5], [3, 3], [2, 6], [5, 4], [1, 4], [6, 2]]):
        for hs in [(1, 1), (1, 2), (2, 1), (2, 2), (3, 2), (2, 3), (3, 3), (4, 3), (2, 4)]:
            if hs[0] > d[0] + 2 or hs[1] > d[1] + 2:
                continue
            offs = [(a, b) for a in range(hs[0]) for b in range(hs[1])]
            for off in (offs if th else [offs[(kk + 1) % len(offs)], offs[-1 - (kk % len(offs))]]):
                kk += 1
                add("ConvolveND" if kk % 2 else "Convolve2D", dims=d, h=np.array(_ivec(r, hs[0] * hs[1])).reshape(hs).tolist(),
                    offset=list(off), axes=[0, 1] if kk % 3 else [-2, -1], method="direct" if kk % 4 == 0 else "fft")
    # ---- Regression
    for t, order in [([0, 1, 2, 3], 1), ([-1.5, 0.25, 2.0], 2), ([0.5, 1.0, -2.0, 3.0, 4.0], 3), ([2.0], 0), ([1.0, -1.0], 4)]:
        add("Regression", t=t, order=order)
    add("Regression", t=[0.0, 0.5, 1.0, 2.5], order=1, linear=True)
    add("Regression", t=[-3.0, 7.0], order=1, linear=True)
    return G


# --------------------------------------------------------------------------
# run
# --------------------------------------------------------------------------
def ensure_built():
    """Compile this part's own .v files when their .vo is missing/outdated
    (until they are listed in _CoqProject)."""
    th = os.path.join(common.COQDIR, "theories")
    proj = open(os.path.join(common.COQDIR, "_CoqProject")).read()
    for f in OWN_V:
        src = os.path.join(th, f)
        vo = src[:-2] + ".vo"
        if "theories/" + f in proj and os.path.exists(vo) and os.path.getmtime(vo) >= os.path.getmtime(src):
            continue
        deps = [os.path.join(th, g)[:-2] + ".vo" for g in OWN_V[:OWN_V.index(f)]]
        if os.path.exists(vo) and os.path.getmtime(vo) >= max([os.path.getmtime(src)] + [os.path.getmtime(d) for d in deps if os.path.exists(d)]):
            continue
        p = subprocess.run(["timeout", "600", "coqc", "-Q", "theories", "PV", "theories/" + f], cwd=common.COQDIR,
                           stdout=subprocess.PIPE, stderr=subprocess.STDOUT, text=True)
        if p.returncode != 0:
            raise SystemExit("coqc %s failed:\n%s" % (f, p.stdout[-3000:]))


def props():
    f = os.path.join(common.COQDIR, "theories", "Props", SUB + ".v")
    if not os.path.exists(f):
        return [], []
    return common.props_assumptions(SUB)


def known_for(fam, p, prop=None):
    """Known finding matching this configuration (matched on the trigger predicate, not on the property alone)."""
    if _long_nd(fam, p) and prop in (None, "C07"):
        for k in [k for k in common.load_known() if isinstance(k, dict)] + PROPOSED_KNOWN:
            if k.get("id") == "KF-C07-conv1d-long-nd":
                return k
    return None


def extract(tier):
    import logging
    logging.disable(logging.WARNING)      # pylops logs a warning for positions beyond the last sample
    recs = []
    for idx, (fam, p) in enumerate(grid(tier)):
        F = FAM[fam]
        rec = {"id": idx, "family": fam, "params": p, "cplx": bool(F.cplx(p))}
        try:
            op = F.build(p)
            W = l1.Wrapped(op)
            A, B = W.matrices()
            rec.update(A=A, B=B, shape=list(op.shape), kind=W.kind)
            if W.kind == "rlin" or W.cplx != rec["cplx"]:
                rec["error"] = "operator kind %s/%s does not match the documented field" % (W.kind, W.cplx)
        except Exception as e:
            rec["error"] = "%s: %s" % (type(e).__name__, str(e)[:300])
        recs.append(rec)
    return recs


CANARY = 999999


def model_of(fam, p):
    """(forward, adjoint) Gallina expressions of the executable code-shaped model, or (None, None)."""
    f = getattr(FAM[fam], "model", None)
    if f is None:
        return None, None
    try:
        r = f(p)
    except Exception:
        r = None
    return r if r else (None, None)


def _lit(rec, spec):
    c = rec["cplx"]
    pre = "kc" if c else "kr"
    mf, ma = rec.get("model", (None, None))
    return ("{| %s_id := %d%%nat; %s_spec := %s;\n  %s_A := %s;\n  %s_B := %s;\n  %s_mf := %s; %s_ma := %s |}"
            % (pre, rec["id"], pre, spec, pre, common.mlit(rec["A"], c), pre, common.mlit(rec["B"], c),
               pre, "Some %s" % mf if mf else "None", pre, "Some %s" % ma if ma else "None"))


def coq_eval(recs):
    d = common.workdir(SUB)
    ok = [r for r in recs if "error" not in r]
    can = {"id": CANARY, "cplx": False, "A": np.array([[0.0, 1.0], [1.0, 0.0]]), "B": np.array([[0.0, 1.0], [1.0, 0.0]]),
           "family": "Flip", "params": {"dims": [2]}, "model": ("(pad_fwd QcR 0 0)", None)}   # wrong model as well: code 3 expected
    for r in ok:
        r["model"] = model_of(r["family"], r["params"])
    items = [(r, FAM[r["family"]].coq(r["params"])) for r in ok]
    items.append((can, "(specM QcR 2 2 (pad_spec QcR 0 2))"))        # deliberately wrong: identity documented, flip observed
    items.sort(key=lambda t: -t[0]["A"].size)
    nsh = max(1, min(2 * common.NPROC, len(items) // 8 + 1))
    shards = [[] for _ in range(nsh)]
    for i, t in enumerate(items):
        shards[i % nsh].append(t)
    tq = common.qlit(Fraction(TOL).limit_denominator(10 ** 15))
    names = []
    for k, sh in enumerate(shards):
        if not sh:
            continue
        name = "c07b_%d" % k
        names.append(name)
        with open(os.path.join(d, name + ".v"), "w") as f:
            f.write("From Coq Require Import QArith Qcanon ZArith List.\n"
                    "From PV Require Import Dict Vec Dot Mat QcInst GaussQc Check IndexOps Conv InterpOps ConvND BilinearOp CheckC07b.\n"
                    "Import ListNotations.\nOpen Scope Qc_scope.\n")
            f.write("Definition tol : Qc := %s.\n" % tq)
            f.write("Definition rcases : list caseR := [\n%s].\n" % ";\n".join(_lit(r, s) for r, s in sh if not r["cplx"]))
            f.write("Definition ccases : list caseC := [\n%s].\n" % ";\n".join(_lit(r, s) for r, s in sh if r["cplx"]))
            f.write("Eval vm_compute in (failing kr_id (chkR tol) rcases ++ failing kc_id (chkC tol) ccases).\n")
    outs = common.run_coq_files(d, names)
    res = {}
    for n in names:
        res.update(common.parse_failing(outs[n]))
    c = res.pop(CANARY, [])
    if c[:1] != [1] or 3 not in c[0::3]:
        raise RuntimeError("C07b canary (flip matrix against the identity specification) was not reported: pipeline broken")
    return res


def search(rec, codes, adjoint=False):
    """First differing entry -> constructor args + unit vector + documented vs observed.
    adjoint=True: the adjoint matrix against the conjugate transpose of the documented matrix."""
    F = FAM[rec["family"]]
    A = rec["B"] if adjoint else rec["A"]
    out = {"family": rec["family"], "params": rec["params"], "sub": SUB, "adjoint": bool(adjoint)}
    try:
        Mref = np.asarray(F.ref(rec["params"]))
        if adjoint:
            Mref = Mref.conj().T
    except Exception as e:       # the numpy transcription itself failed: fall back on Coq's indices
        Mref = None
        out["ref_error"] = str(e)
    i = j = None
    if Mref is not None and Mref.shape == A.shape:
        D = np.abs(A - Mref) > TOL * (1 + np.abs(Mref))
        if D.any():
            i, j = [int(t) for t in np.argwhere(D)[0]]
    elif Mref is not None:
        out.update(shape_documented=list(Mref.shape), shape_observed=list(A.shape))
        return out, True
    if i is None:
        return out, False
    out.update(unit_vector=j, row=i, documented=str(Mref[i, j]), observed=str(A[i, j]), coq_first_diff=codes[1:3])
    return out, True


def replay(rp):
    F = FAM[rp["family"]]
    try:
        op = F.build(rp["params"])
        if rp.get("error"):
            l1.Wrapped(op).matrices()
    except Exception as e:
        print("operator raised %s: %s" % (type(e).__name__, e))
        print("reproduced" if rp.get("error") else "not reproduced")
        return 1 if rp.get("error") else 0
    if rp.get("error"):
        print("operator builds and applies (recorded error: %s)" % rp["error"])
        print("not reproduced")
        return 0
    Mref = np.asarray(F.ref(rp["params"]))
    adj = bool(rp.get("adjoint"))
    if adj:
        Mref = Mref.conj().T
    if "shape_documented" in rp:
        bad = (tuple(op.shape)[::-1] if adj else tuple(op.shape)) != Mref.shape
        print("operator shape", op.shape, "documented", Mref.shape[::-1] if adj else Mref.shape)
    else:
        W = l1.Wrapped(op)
        e = np.zeros(W.M if adj else W.N)
        e[rp["unit_vector"]] = 1
        y = W.adj(e) if adj else W.fwd(e)
        i = rp["row"]
        print("%s e_%d [%d] = %s ; documented %s" % ("Op^H" if adj else "Op", rp["unit_vector"], i, y[i], Mref[i, rp["unit_vector"]]))
        bad = abs(y[i] - Mref[i, rp["unit_vector"]]) > TOL * (1 + abs(Mref[i, rp["unit_vector"]]))
    print("reproduced" if bad else "not reproduced")
    return 1 if bad else 0


def run(R, tier):
    """Adds the results of part (b) to the shared report R; returns counts."""
    t0 = time.time()
    ensure_built()
    thms, axioms = props()
    recs = extract(tier)
    t1 = time.time()
    codes = coq_eval(recs)
    t2 = time.time()
    nontriv = set()
    evals = 0
    ok = 0
    nknown = 0
    adj_notes = []
    nmodel = 0
    failing = {}          # family -> list of (size, rec, codes): shrunk to the smallest configuration below
    failing_adj = {}      # same for the documented adjoint action (ADJ_DOCUMENTED families)
    failing_err = {}      # (family, exception class) -> configurations on which the operator cannot be built/applied
    for rec in recs:
        fam, p = rec["family"], rec["params"]
        if "error" in rec:
            kf = known_for(fam, p)
            if kf:
                R.known_finding(kf["id"], kf["what"])
                nknown += 1
            else:
                failing_err.setdefault((fam, rec["error"].split(":")[0]), []).append((prod(p.get("dims", p.get("N", [0]))), rec["id"], rec))
            continue
        evals += rec["A"].shape[0] + rec["A"].shape[1]
        if np.abs(rec["A"]).max(initial=0) > 0:
            nontriv.add(fam + json.dumps(p, sort_keys=True))
        craw = codes.get(rec["id"], [])
        cd = {craw[k]: craw[k + 1:k + 3] for k in range(0, len(craw), 3)}      # code -> [i, j]
        if rec.get("model", (None, None))[0]:
            nmodel += 1
        # executable model vs implementation although the documented matrix agrees: the model no longer mirrors the code
        if (3 in cd and 1 not in cd) or (4 in cd and 2 not in cd):
            R.violation("%s: the executable Gallina model of %s %s disagrees with the implementation (%s) although the documented "
                        "matrix agrees: the family theorems no longer apply to the code"
                        % (SUB, fam, p, ", ".join("%s at %s" % ("forward" if k == 3 else "adjoint", cd[k]) for k in (3, 4) if k in cd)),
                        {"family": fam, "params": p, "sub": SUB, "coq_codes": craw,
                         "correspondence": "CheckC07b.chkR/chkC codes 3/4: implementation matrix vs modelM of the code-shaped model"},
                        no_input=True)
        c = ([1] + cd[1]) if 1 in cd else (([2] + cd[2]) if 2 in cd else [])
        if c[:1] == [1]:
            kf = known_for(fam, p, "C07")
            if kf:
                R.known_finding(kf["id"], kf["what"])
                nknown += 1
                continue
            failing.setdefault(fam, []).append((rec["A"].size, rec["id"], rec, c))
            continue
        if c[:1] == [2] and fam in ADJ_DOCUMENTED:
            failing_adj.setdefault(fam, []).append((rec["A"].size, rec["id"], rec, c))
            continue
        ok += 1
        if c[:1] == [2]:
            adj_notes.append("%s %s: adjoint matrix differs from spec^H at %s (judged by C01)" % (fam, p, c[1:3]))
    for fam, lst in sorted(failing.items()):
        lst.sort(key=lambda t: (t[0], t[1]))
        _, _, rec, c = lst[0]              # smallest failing configuration of the family
        p = rec["params"]
        more = "" if len(lst) == 1 else " (+%d larger failing configurations of this family)" % (len(lst) - 1)
        rp, found = search(rec, c)
        rp["failing_configurations"] = len(lst)
        if found:
            R.violation("%s: %s %s is not the documented operation: column %s row %s documented %s observed %s%s"
                        % (SUB, fam, p, rp.get("unit_vector"), rp.get("row"), rp.get("documented", rp.get("shape_documented")),
                           rp.get("observed", rp.get("shape_observed")), more), rp)
        else:
            rp.update(correspondence="CheckC07b.chkR/chkC: implementation matrix vs Coq specification matrix", coq_codes=c)
            R.violation("%s: %s %s disagrees with the Coq specification matrix at %s but the numpy transcription agrees%s"
                        % (SUB, fam, p, c[1:3], more), rp, no_input=True)
    for (fam, _), lst in sorted(failing_err.items()):
        lst.sort(key=lambda t: (t[0], t[1]))
        rec = lst[0][2]
        more = "" if len(lst) == 1 else " (+%d larger failing configurations of this family)" % (len(lst) - 1)
        R.violation("%s: operator cannot be built/applied on a documented configuration: %s %s: %s%s"
                    % (SUB, fam, rec["params"], rec["error"], more),
                    {"family": fam, "params": rec["params"], "error": rec["error"], "sub": SUB, "failing_configurations": len(lst)})
    for fam, lst in sorted(failing_adj.items()):
        lst.sort(key=lambda t: (t[0], t[1]))
        _, _, rec, c = lst[0]
        p = rec["params"]
        more = "" if len(lst) == 1 else " (+%d larger failing configurations of this family)" % (len(lst) - 1)
        rp, found = search(rec, c, adjoint=True)
        rp["failing_configurations"] = len(lst)
        R.violation("%s: adjoint of %s %s is not the documented operation (transpose of the documented matrix): "
                    "Op^H e_%s row %s documented %s observed %s%s"
                    % (SUB, fam, p, rp.get("unit_vector"), rp.get("row"), rp.get("documented"), rp.get("observed"), more),
                    rp, no_input=not found)
    if axioms and not set(axioms) <= common.ALLOWED_AXIOMS:
        R.violation("Props/C07b.v depends on unexpected axioms %s" % axioms, {"theorem_file": "Props/C07b.v", "axioms": axioms}, no_input=True)
    R.notes.extend(adj_notes[:10])
    fams = {}
    for rec in recs:
        fams[rec["family"]] = fams.get(rec["family"], 0) + 1
    res = {"sub": SUB, "theorems": thms, "axioms": axioms, "configurations": len(recs) - nknown, "known_finding_cases": nknown, "discharged": ok,
           "evaluations": evals, "distinct_nontrivial": len(nontriv), "families": fams, "with_executable_model": nmodel,
           "ndim": {str(k): sum(1 for r in recs if len(r["params"].get("dims", r["params"].get("N", [0]))) == k) for k in (1, 2, 3, 4)},
           "complex": sum(1 for r in recs if r["cplx"]), "t_python": round(t1 - t0, 1), "t_coq": round(t2 - t1, 1),
           "samples": [{"family": r["family"], "params": r["params"], "shape": r.get("shape")} for r in recs[::max(1, len(recs) // 6)]]}
    return res


def main(tier):
    R = common.Report(PID, tier)
    common.coq_build()
    res = run(R, tier)
    R.cov.update(
        obligations=len(res["theorems"]) + res["configurations"], discharged=len(res["theorems"]) + res["discharged"],
        checker_cmd="make -C coq + coqc Ops/IndexOps.v Ops/Conv.v Ops/InterpOps.v Corr/CheckC07b.v Props/C07b.v (Print Assumptions) + coqc .work/C07b/c07b_*.v (vm_compute)",
        theorems=res["theorems"], axioms_reported=res["axioms"], evaluations=res["evaluations"],
        distinct_nontrivial=res["distinct_nontrivial"],
        rule="one case per (family, constructor arguments); evaluations = unit-vector applications used to extract the dense matrix; "
             "non-trivial = forward matrix not identically zero; obligation = implementation matrix ~ Kronecker lift of the Coq specification matrix within 1e-9(1+|.|), evaluated in Coq",
        configurations=res["configurations"], families=res["families"], ndim=res["ndim"], complex_cases=res["complex"],
        t_python=res["t_python"], t_coq=res["t_coq"])
    R.samples = res["samples"]
    return R.finish()
