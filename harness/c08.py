"""C08 — documented isometries and inverses really invert.

Theorems (Props/C08.v over Ops/DFT.v, Ops/DFTEngines.v): under the
principal-root hypotheses every engine model satisfies adj(fwd x) = x for
norm='ortho' and div(fwd x) = x for every norm when nfft >= n (with shifts),
rotations/flips are inverted by their adjoints.  Correspondence (this file):
the REAL implementation is run on small-integer / Gaussian-integer x and the
returned vector Op.H @ (Op @ x), Op / (Op @ x), Op.inv() @ (Op @ x) is
compared with x INSIDE Coq (Corr/CheckC08.v, tolerance 1e-9); for DCT / DWT
(external transforms, L1 only) additionally the Gram matrix of the extracted
columns is compared with the identity in Coq.  On disagreement a minimal x
(unit vector first) is searched on the implementation."""
import itertools
import os
import subprocess
import time
import warnings

import numpy as np

from . import common

PID = "C08"
TOL = 1e-9
# Genuine defects of the unchanged tree found by this check (none so far).
# Entry: {"id": ..., "what": ..., "match": lambda case: bool}
PROPOSED_KNOWN = []

OWN_V = ["Ops/DFT.v", "Ops/DFTEngines.v", "Ops/Haar.v", "Ops/Haar2D.v", "Corr/CheckC08.v", "Props/C08.v", "Props/C07c.v"]


def build_own():
    """Until integrated into _CoqProject: compile this property's .v files in
    order when their .vo is missing or older than a source they depend on."""
    th = os.path.join(common.COQDIR, "theories")
    newest = 0.0
    for rel in OWN_V:
        src = os.path.join(th, rel)
        if not os.path.exists(src):
            continue
        vo = src[:-2] + ".vo"
        newest = max(newest, os.path.getmtime(src))
        if (not os.path.exists(vo)) or os.path.getmtime(vo) < newest:
            p = subprocess.run(["timeout", "600", "coqc", "-Q", "theories", "PV", "theories/" + rel], cwd=common.COQDIR,
                               stdout=subprocess.PIPE, stderr=subprocess.STDOUT, text=True)
            if p.returncode != 0:
                raise SystemExit("coqc %s failed:\n%s" % (rel, p.stdout[-3000:]))
            newest = max(newest, os.path.getmtime(vo))


# ------------------------------------------------------------------ operators
def _t(v):
    return tuple(v) if isinstance(v, (list, tuple)) else v


COND_MAX = 500.0   # a-priori bound: relative error of LAPACK / SuperLU solves <= ~ n * cond * eps ~ 1e-12 << 1e-9


def _unimodular_raw(rs, n, cplx, amp):
    L = np.eye(n, dtype=complex if cplx else float)
    U = np.eye(n, dtype=complex if cplx else float)
    for i in range(n):
        for j in range(i):
            L[i, j] = rs.randint(-amp, amp) + (1j * rs.randint(-1, 1) if cplx else 0)
            U[j, i] = rs.randint(-amp, amp) + (1j * rs.randint(-1, 1) if cplx else 0)
    P = np.eye(n)[rs.sample(range(n), n)]
    return P @ L @ U


def unimodular(rs, n, cplx=False, cond_max=COND_MAX):
    """Integer (Gaussian-integer) matrix with determinant of modulus 1: product of unit lower / upper
    triangular integer matrices -> exact integer inverse.  Only WELL-CONDITIONED draws are kept
    (2-norm condition number <= cond_max, computed on the exact small-integer matrix), so that the
    floating-point solvers recover x far below the 1e-9 comparison tolerance for every seed."""
    for t in range(400):
        A = _unimodular_raw(rs, n, cplx, 2 if t < 200 else 1)
        if np.linalg.cond(A) <= cond_max:
            return A
    return np.eye(n, dtype=complex if cplx else float)[rs.sample(range(n), n)]


def well_conditioned(gen, cond_max=COND_MAX, tries=400):
    for _ in range(tries):
        A = gen()
        if A is not None and np.linalg.cond(A) <= cond_max:
            return A
    raise RuntimeError("no well-conditioned matrix generated")


def structured(rs, n, mkind):
    """Full-rank matrices with small-integer / Gaussian-integer entries and a
    special structure (determinant a unit, so x is recovered exactly):
    csym  complex symmetric (A == A.T) but NOT Hermitian;  cdiag complex diagonal;
    cscal complex multiple of the identity;  rsym real symmetric (indefinite);
    herm  Hermitian (indefinite);  tril / triu triangular (real or complex)."""
    return well_conditioned(lambda: _structured_raw(rs, n, mkind))


def _structured_raw(rs, n, mkind):
    sgn = np.diag([rs.choice((1, -1)) for _ in range(n)]).astype(complex)
    if mkind == "csym":
        U = unimodular(rs, n, True, cond_max=4 * COND_MAX ** 0.5)
        A = U.T @ sgn @ U
        if n == 1:
            A = np.array([[complex(rs.choice((1, -1, 2)), rs.choice((1, -1, 2)))]])
        return A if not np.array_equal(A, A.conj().T) else None
    if mkind == "cdiag":
        return np.diag([complex(rs.choice((1, -1, 2, 0)), rs.choice((1, -1, 2))) for _ in range(n)])
    if mkind == "cscal":
        return complex(rs.choice((0, 1, -1, 2)), rs.choice((1, -1, 2))) * np.eye(n)
    if mkind == "rsym":
        U = unimodular(rs, n, False, cond_max=4 * COND_MAX ** 0.5)
        return U.T @ sgn.real @ U
    if mkind == "herm":
        U = unimodular(rs, n, True, cond_max=4 * COND_MAX ** 0.5)
        return U.conj().T @ sgn @ U
    if mkind in ("tril", "triu", "ctril", "ctriu"):
        cplx = mkind.startswith("c")
        A = np.zeros((n, n), dtype=complex)
        for i in range(n):
            A[i, i] = rs.choice((1, -1)) * (1j if cplx and rs.random() < 0.5 else 1)
            for j in range(i):
                A[i, j] = rs.randint(-2, 2) + (1j * rs.randint(-1, 1) if cplx else 0)
        return A if mkind.endswith("l") else A.T
    raise ValueError(mkind)


MKINDS = ("csym", "cdiag", "cscal", "rsym", "herm", "tril", "triu", "ctril", "ctriu")


def build(family, p):
    import pylops
    import scipy.sparse as sps
    sp = pylops.signalprocessing
    if family == "FFT":
        return sp.FFT(_t(p["dims"]), axis=p["axis"], nfft=p["nfft"], norm=p["norm"], real=p["real"],
                      ifftshift_before=p["sb"], fftshift_after=p["sa"], engine=p["engine"], dtype=p["dtype"])
    if family in ("FFT2D", "FFTND"):
        f = sp.FFT2D if family == "FFT2D" else sp.FFTND
        return f(_t(p["dims"]), axes=_t(p["axes"]), nffts=_t(p["nffts"]), norm=p["norm"], real=p["real"],
                 ifftshift_before=_t(p["sb"]), fftshift_after=_t(p["sa"]), engine=p["engine"], dtype=p["dtype"])
    if family == "DCT":
        return sp.DCT(_t(p["dims"]), type=p["type"], axes=None if p["axes"] is None else list(p["axes"]))
    if family == "DWT":
        return sp.DWT(_t(p["dims"]), axis=p["axis"], wavelet=p["wavelet"], level=p["level"])
    if family == "DWT2D":
        return sp.DWT2D(_t(p["dims"]), axes=_t(p["axes"]), wavelet=p["wavelet"], level=p["level"])
    if family == "DWTND":
        return sp.DWTND(_t(p["dims"]), axes=_t(p["axes"]), wavelet=p["wavelet"], level=p["level"])
    if family == "Flip":
        return pylops.Flip(_t(p["dims"]), axis=p["axis"], dtype=p["dtype"])
    if family == "Roll":
        return pylops.Roll(_t(p["dims"]), axis=p["axis"], shift=p["shift"], dtype=p["dtype"])
    if family == "Transpose":
        return pylops.Transpose(_t(p["dims"]), axes=_t(p["axes"]), dtype=p["dtype"])
    if family == "Identity":
        return pylops.Identity(p["N"], dtype=p["dtype"], inplace=p["inplace"])
    if family == "MatrixMult":
        A = np.array([[complex(t) for t in r] for r in p["A"]])
        if not p["cplx"]:
            A = A.real.copy()
        if p["sparse"]:
            A = getattr(sps, p["sparse"] + "_matrix")(A)
        Op = pylops.MatrixMult(A, dtype="complex128" if p["cplx"] else "float64")
        if p["wrap"]:
            Op = pylops.LinearOperator(Op)
        return Op
    raise ValueError(family)


def is_complex_input(family, p):
    if family in ("FFT", "FFT2D", "FFTND"):
        return (not p["real"]) and p["dtype"] == "complex128"
    if family in ("Flip", "Roll", "Transpose", "Identity"):
        return p["dtype"] == "complex128"
    if family == "MatrixMult":
        return p["cplx"] or bool(p.get("xc"))
    return False


def roundtrip(Op, kind, x, p=None):
    y = Op @ x
    if kind == "iso":
        return Op.H @ y
    if kind == "div":
        return Op / y
    if kind == "div_numpy":
        return Op.div(y, densesolver="numpy")
    if kind == "div_default":
        return Op.div(y)
    if kind == "inv":
        Ai = Op.inv()
        return np.asarray(Ai.dot(y)).ravel()
    raise ValueError(kind)


def shape_problem(Op):
    """dims / dimsd / shape and the lengths actually returned must agree."""
    try:
        n, m = int(np.prod(Op.dims)), int(np.prod(Op.dimsd))
        if tuple(int(t) for t in Op.shape) != (m, n):
            return "shape %s != (prod(dimsd)=%d, prod(dims)=%d)" % (tuple(Op.shape), m, n)
        ly = np.asarray(Op @ np.ones(n)).size
        lx = np.asarray(Op.H @ np.ones(m)).size
        if ly != m or lx != n:
            return "Op @ x has %d samples (shape says %d); Op.H @ y has %d (shape says %d)" % (ly, m, lx, n)
    except Exception as e:                                       # noqa: BLE001
        return "raised " + repr(e)
    return None


def intvec(rs, n, cplx):
    x = np.array([rs.randint(-9, 9) for _ in range(n)], dtype=float)
    if cplx:
        x = x + 1j * np.array([rs.randint(-9, 9) for _ in range(n)], dtype=float)
    if not np.any(x):
        x[0] = 1.0
    return x


# ------------------------------------------------------------------ grids
NORMS = ("ortho", "none", "1/n")
WAVELETS = ("haar", "db2", "db3", "db4", "sym2", "sym3", "sym4", "coif1")


def fft_grid(tier, rs):
    """(family, params) over engines x norms x real x dtype x shifts x axes x
    nfft >= n.  quick: every (engine, norm, real, dtype, sb, sa) combination of
    the 1-D operator with sampled shapes; 2-D / N-d sampled per (engine, norm,
    real, dtype)."""
    out = []
    shapes1 = [((n,), 0) for n in range(1, 10)] + [((3, 4), 0), ((3, 4), 1), ((3, 4), -1), ((2, 3, 4), 0), ((2, 3, 4), 1),
                                                    ((2, 3, 4), -1), ((4, 1, 3), 1), ((4, 1, 3), -3), ((5, 2), -2)]
    extras = (0, 1, 2, 5)
    per = 5 if tier == "quick" else None
    for eng, norm, real, dt, sb, sa in itertools.product(("numpy", "scipy", "fftw"), NORMS, (False, True),
                                                          ("complex128", "float64"), (False, True), (False, True)):
        sel = list(itertools.product(shapes1, extras))
        if per:
            sel = rs.sample(sel, per)
        for (dims, axis), ex in sel:
            out.append(("FFT", dict(dims=list(dims), axis=axis, nfft=dims[axis] + ex, norm=norm, real=real, sb=sb, sa=sa,
                                    engine=eng, dtype=dt)))
    shapes2 = [(3, 4), (2, 3, 4), (4, 5, 3), (1, 3), (2, 2), (5, 1)]
    sh = (False, True, (True, False), (False, True))
    per2 = 14 if tier == "quick" else 150
    for eng, norm, real, dt in itertools.product(("numpy", "scipy"), NORMS, (False, True), ("complex128", "float64")):
        for _ in range(per2):
            dims = rs.choice(shapes2)
            axes = tuple(rs.sample(range(len(dims)), 2))
            if rs.random() < 0.3:
                axes = tuple(a - len(dims) for a in axes)
            ex = (rs.choice((0, 0, 1, 2, 3)), rs.choice((0, 0, 1, 2, 3)))
            nffts = [dims[axes[0]] + ex[0], dims[axes[1]] + ex[1]]
            sb, sa = rs.choice(sh), rs.choice(sh)
            out.append(("FFT2D", dict(dims=list(dims), axes=list(axes), nffts=nffts, norm=norm, real=real,
                                      sb=list(sb) if isinstance(sb, tuple) else sb, sa=list(sa) if isinstance(sa, tuple) else sa,
                                      engine=eng, dtype=dt)))
    shapes3 = [(3, 4), (2, 3, 4), (3, 2, 2, 3), (4, 3, 2), (2, 1, 5)]
    for eng, norm, real, dt in itertools.product(("numpy", "scipy"), NORMS, (False, True), ("complex128", "float64")):
        for _ in range(per2):
            dims = rs.choice(shapes3)
            k = rs.choice([a for a in (1, 2, 3) if a <= len(dims)])
            axes = tuple(rs.sample(range(len(dims)), k))
            nffts = [dims[a] + rs.choice((0, 0, 1, 2)) for a in axes]
            sb = [rs.random() < 0.5 for _ in axes] if rs.random() < 0.5 else (rs.random() < 0.5)
            sa = [rs.random() < 0.5 for _ in axes] if rs.random() < 0.5 else (rs.random() < 0.5)
            out.append(("FFTND", dict(dims=list(dims), axes=list(axes), nffts=nffts, norm=norm, real=real, sb=sb, sa=sa,
                                      engine=eng, dtype=dt)))
    return out


def other_grid(tier, rs):
    out = []
    # DCT: scipy makes ALL four types orthonormal with norm='ortho' (for type 1
    # through orthogonalize=True, the default when norm='ortho'); type 1 is
    # undefined for a transformed axis of length 1 (scipy raises).
    for dims in [(2,), (3,), (5,), (8,), (3, 4), (2, 3, 4), (1, 3), (4, 1)]:
        axl = [None] + [a for k in range(1, len(dims) + 1) for a in itertools.combinations(range(len(dims)), k)]
        for typ in (1, 2, 3, 4):
            for axes in axl:
                tr = range(len(dims)) if axes is None else axes
                if typ == 1 and any(dims[a] < 2 for a in tr):
                    continue
                out.append(("DCT", dict(dims=list(dims), type=typ, axes=None if axes is None else list(axes))))
    # DWT: orthogonal wavelets, lengths compatible with the level (multiples of 2^level)
    dw = []
    for wl in WAVELETS:
        for lev in (1, 2, 3):
            for n in (2, 4, 6, 8, 12, 16):
                if n % (2 ** lev) == 0:
                    dw.append(("DWT", dict(dims=[n], axis=0, wavelet=wl, level=lev)))
            dw.append(("DWT", dict(dims=[3, 2 ** lev * 2], axis=-1, wavelet=wl, level=lev)))
            dw.append(("DWT", dict(dims=[2 ** lev, 3], axis=0, wavelet=wl, level=lev)))
        for lev in (1, 2):
            for dims, axes in (((4, 4), (0, 1)), ((4, 8), (0, 1)), ((8, 4), (-2, -1)), ((2, 4, 4), (1, 2)), ((4, 3, 4), (0, 2)), ((12, 4), (0, 1))):
                if all(dims[a] % 2 ** lev == 0 for a in axes):
                    dw.append(("DWT2D", dict(dims=list(dims), axes=list(axes), wavelet=wl, level=lev)))
        for dims, axes, lev in (((2, 2, 2), (0, 1, 2), 1), ((4, 4, 4), (0, 1, 2), 2), ((2, 4, 6), (0, 1, 2), 1), ((4, 2), (0, 1), 1), ((3, 4, 2, 2), (1, 2, 3), 1)):
            dw.append(("DWTND", dict(dims=list(dims), axes=list(axes), wavelet=wl, level=lev)))
    if tier == "quick":
        dw = rs.sample(dw, 170)
    out += dw
    # decomposition level deeper than the signal supports (2**level > next power of two of n):
    # the operator pads to 2**level; rmatvec and '/' (Op.div) must still recover x
    deep = []
    for wl in WAVELETS:
        for n, lev in ((5, 4), (3, 3), (6, 4), (1, 2), (2, 3), (7, 4)):
            deep.append(("DWT", dict(dims=[n], axis=0, wavelet=wl, level=lev, deep=True)))
        deep.append(("DWT", dict(dims=[5, 3], axis=0, wavelet=wl, level=4, deep=True)))
        deep.append(("DWT", dict(dims=[2, 3], axis=-1, wavelet=wl, level=3, deep=True)))
        for dims, lev in (((5, 6), 4), ((3, 5), 3), ((2, 2), 2), ((6, 3), 4)):
            deep.append(("DWT2D", dict(dims=list(dims), axes=[0, 1], wavelet=wl, level=lev, deep=True)))
        deep.append(("DWT2D", dict(dims=[2, 3, 5], axes=[1, 2], wavelet=wl, level=3, deep=True)))
        deep.append(("DWTND", dict(dims=[3, 5, 2], axes=[0, 1, 2], wavelet=wl, level=3, deep=True)))
    if tier == "quick":
        deep = [d for d in deep if d[1]["wavelet"] == "haar"] + rs.sample([d for d in deep if d[1]["wavelet"] != "haar"], 40)
    out += deep
    for dims in [(1,), (2,), (5,), (3, 4), (2, 3, 4)]:
        for axis in range(-len(dims), len(dims)):
            for dt in ("float64", "complex128"):
                out.append(("Flip", dict(dims=list(dims), axis=axis, dtype=dt)))
                for shift in (-3, -1, 0, 1, 2, 7):
                    out.append(("Roll", dict(dims=list(dims), axis=axis, shift=shift, dtype=dt)))
    for dims in [(2, 3), (2, 3, 4), (3, 1, 2)]:
        for axes in itertools.permutations(range(len(dims))):
            for dt in ("float64", "complex128"):
                out.append(("Transpose", dict(dims=list(dims), axes=list(axes), dtype=dt)))
    for N in (1, 3, 6):
        for dt in ("float64", "complex128"):
            for inplace in (True, False):
                out.append(("Identity", dict(N=N, dtype=dt, inplace=inplace)))
    reps = 2 if tier == "quick" else 8
    for n in (1, 2, 3, 4, 5, 6):
        for cplx in (False, True):
            for sparse in (None, "csc", "csr"):
                for wrap in (False, True):
                    for _ in range(reps):
                        A = unimodular(rs, n, cplx)
                        out.append(("MatrixMult", dict(A=[[str(complex(t)) for t in r] for r in A], cplx=cplx, sparse=sparse,
                                                       wrap=wrap, rect=False)))
                    if sparse is None:       # rectangular (tall, full column rank): lstsq branch of '/'
                        A = np.vstack([unimodular(rs, n, cplx), np.array([[rs.randint(-2, 2) for _ in range(n)] for _ in range(rs.randint(1, 3))])])
                        out.append(("MatrixMult", dict(A=[[str(complex(t)) for t in r] for r in A], cplx=cplx, sparse=None,
                                                       wrap=wrap, rect=True)))
    # REAL matrix, COMPLEX right-hand side (x Gaussian-integer): '/', div(scipy), div(numpy), inv, square and tall
    for n in (1, 2, 3, 4, 5):
        for wrap in (False, True):
            for sparse in (None, "csc"):
                for _ in range(1 if tier == "quick" else 3):
                    A = unimodular(rs, n, False)
                    out.append(("MatrixMult", dict(A=[[str(complex(t)) for t in r] for r in A], cplx=False, xc=True, sparse=sparse,
                                                   wrap=wrap, rect=False)))
            A = np.vstack([unimodular(rs, n, False), np.array([[rs.randint(-2, 2) for _ in range(n)] for _ in range(rs.randint(1, 3))])])
            out.append(("MatrixMult", dict(A=[[str(complex(t)) for t in r] for r in A], cplx=False, xc=True, sparse=None,
                                           wrap=wrap, rect=True)))
    # structured explicit operators: solvers may pick structure-specific drivers
    for mkind in MKINDS:
        for n in (1, 2, 3, 4, 5):
            for sparse, wrap in ((None, False), (None, True), ("csc", False)):
                for _ in range(1 if tier == "quick" else 3):
                    A = structured(rs, n, mkind)
                    cplx = bool(np.abs(A.imag).max() > 0) or mkind in ("csym", "cdiag", "cscal", "herm", "ctril", "ctriu")
                    out.append(("MatrixMult", dict(A=[[str(complex(t)) for t in r] for r in A], cplx=cplx, sparse=sparse,
                                                   wrap=wrap, rect=False, mkind=mkind)))
    return out


def kinds_for(family, p):
    if family in ("FFT", "FFT2D", "FFTND"):
        return ("iso", "div") if p["norm"] == "ortho" else ("div",)
    if family == "MatrixMult":
        if p["rect"]:
            return ("div", "div_numpy")
        if p["wrap"]:            # the wrapper has no inv(); '/' goes through the explicit branch
            return ("div",) if p["sparse"] else ("div", "div_numpy")
        return ("inv", "div") if p["sparse"] else ("inv", "div", "div_numpy")
    if p.get("deep"):
        return ("iso", "div", "div_default")
    return ("iso",)


# ------------------------------------------------------------------ Haar DWT vs the Coq model
def haar_grid(tier):
    """(dims, axis, level): 1-D lengths incl. non powers of two, level 0 and levels deeper than the
    length supports (pad to 2**level), and axes of 2-D / 3-D arrays."""
    out = []
    for n in (1, 2, 3, 4, 5, 6, 7, 8, 9, 12, 16):
        for lev in (0, 1, 2, 3, 4):
            if max(1 << max(n - 1, 0).bit_length(), 1 << lev) <= 16:
                out.append(dict(dims=[n], axis=0, level=lev))
    for dims, axis in (((3, 4), 0), ((3, 4), 1), ((3, 4), -1), ((2, 3, 2), 1), ((5, 2), 0), ((2, 2, 3), -1), ((1, 6), 1)):
        for lev in (1, 2, 3):
            out.append(dict(dims=list(dims), axis=axis, level=lev))
    if tier != "quick":
        for n in (10, 11, 13, 20, 32):
            for lev in (1, 3, 5):
                out.append(dict(dims=[n], axis=0, level=lev))
    return out


def haar_ref(p, x, adjoint=False):
    """numpy transcription of the documented Haar transform with pylops' padding (search / replay only)."""
    dims, ax, L = list(p["dims"]), p["axis"] % len(p["dims"]), p["level"]
    n = dims[ax]
    P = max(1 << max(n - 1, 0).bit_length(), 1 << L)
    c = 1 / np.sqrt(2)
    if not adjoint:
        a = np.moveaxis(np.asarray(x, dtype=float).reshape(dims), ax, -1)
        a = np.concatenate([a, np.zeros(a.shape[:-1] + (P - n,))], axis=-1)
        det = []
        for _ in range(L):
            det.insert(0, (a[..., 0::2] - a[..., 1::2]) * c)
            a = (a[..., 0::2] + a[..., 1::2]) * c
        return np.moveaxis(np.concatenate([a] + det, axis=-1), -1, ax).ravel()
    dd = list(dims)
    dd[ax] = P
    y = np.moveaxis(np.asarray(x, dtype=float).reshape(dd), ax, -1)
    m = P >> L
    a = y[..., :m]
    for _ in range(L):
        d = y[..., m:2 * m]
        z = np.empty(a.shape[:-1] + (2 * m,))
        z[..., 0::2] = (a + d) * c
        z[..., 1::2] = (a - d) * c
        a, m = z, 2 * m
    return np.moveaxis(a[..., :n], -1, ax).ravel()


def _sqrt2_60():
    import math
    from fractions import Fraction
    v = Fraction(math.isqrt(2 << 200), 1 << 100)
    n = v * (1 << 60)
    return Fraction((2 * n.numerator + n.denominator) // (2 * n.denominator), 1 << 60)


def haar_cases(tier):
    import pylops
    rx = common.rng(PID, "haar", tier)
    recs = []
    for i, p in enumerate(haar_grid(tier)):
        rec = dict(id=i, params=p)
        try:
            Op = pylops.signalprocessing.DWT(tuple(p["dims"]), axis=p["axis"], wavelet="haar", level=p["level"])
            m, n = int(Op.shape[0]), int(Op.shape[1])
            rec["cols"] = [(j, np.asarray(Op @ np.eye(n)[j]).ravel()) for j in range(n)]
            x = intvec(rx, n, False)
            y = intvec(rx, m, False)
            rec["vecs"] = [(x, np.asarray(Op @ x).ravel())]
            rec["adj"] = [(y, np.asarray(Op.H @ y).ravel())]
        except Exception as e:                                   # noqa: BLE001
            rec["error"] = repr(e)
        recs.append(rec)
    return recs


def haar_emit(d, recs):
    good = [r for r in recs if "error" not in r]
    nsh = max(1, min(16, (len(good) + 11) // 12))
    r2 = common.qlit(_sqrt2_60())
    files = []
    for k in range(nsh):
        sh = good[k::nsh]
        idmap, lits = {}, []
        for lid, r in enumerate(sh):
            p = r["params"]
            idmap[lid] = r["id"]
            lits.append("{| h_id := %d; h_dims := %s; h_ax := %d; h_L := %d; h_r2 := %s;\n  h_cols := [%s];\n  h_vecs := [%s];\n  h_adj := [%s] |}"
                        % (lid, common.natlist(p["dims"]), p["axis"] % len(p["dims"]), p["level"], r2,
                           "; ".join("(%d%%nat, %s)" % (j, common.vlit(c)) for j, c in r["cols"]),
                           "; ".join("(%s, %s)" % (common.vlit(a), common.vlit(b)) for a, b in r["vecs"]),
                           "; ".join("(%s, %s)" % (common.vlit(a), common.vlit(b)) for a, b in r["adj"])))
        if k == 0:    # canary: n = 2, level 1 with a wrong entry (1/2 instead of sqrt2/2)
            idmap[len(sh)] = "canary"
            lits.append("{| h_id := %d; h_dims := [2%%nat]; h_ax := 0; h_L := 1; h_r2 := %s;\n  h_cols := [(0%%nat, [(q 1 2); (q 1 2)])]; h_vecs := []; h_adj := [] |}" % (len(sh), r2))
        L = ["From Coq Require Import QArith Qcanon ZArith List. Import ListNotations.",
             "From PV Require Import Dict Vec Dot Mat QcInst GaussQc Check CheckC08.",
             "Definition tol : Qc := q 1 1000000000.",
             "Definition cs : list hcase := [\n " + ";\n ".join(lits) + "].",
             "Eval vm_compute in (failing h_id (h_check tol) cs)."]
        name = "c08h_%02d" % k
        with open(os.path.join(d, name + ".v"), "w") as f:
            f.write("\n".join(L) + "\n")
        files.append((name, idmap))
    return files


def haar_search(p):
    import pylops
    Op = pylops.signalprocessing.DWT(tuple(p["dims"]), axis=p["axis"], wavelet="haar", level=p["level"])
    m, n = int(Op.shape[0]), int(Op.shape[1])
    for j in range(n):
        e = np.eye(n)[j]
        obs, doc = np.asarray(Op @ e).ravel(), haar_ref(p, e)
        if obs.shape != doc.shape:
            return dict(direction="forward", unit_vector=j, shape_observed=list(obs.shape), shape_documented=list(doc.shape))
        bad = np.abs(obs - doc) > TOL * (1 + np.abs(doc))
        if bad.any():
            k = int(np.argmax(bad))
            return dict(direction="forward", unit_vector=j, row=k, observed=float(obs[k]), documented=float(doc[k]))
    for j in range(m):
        e = np.eye(m)[j]
        obs, doc = np.asarray(Op.H @ e).ravel(), haar_ref(p, e, adjoint=True)
        bad = (obs.shape != doc.shape) or bool((np.abs(obs - doc) > TOL * (1 + np.abs(doc))).any())
        if bad:
            return dict(direction="adjoint", unit_vector=j, observed=[float(t) for t in obs], documented=[float(t) for t in doc])
    return None


# ------------------------------------------------------------------ DWT2D(haar) vs the Coq 2-D model
def _plen(n, L):
    return max(1 << max(n - 1, 0).bit_length(), 1 << L)


def haar2_grid(tier):
    out = []
    shapes = [(2, 2), (4, 4), (3, 5), (5, 6), (1, 3), (4, 2), (6, 3), (8, 4), (3, 12), (7, 2), (1, 1)]
    for r, cc in shapes:
        for lev in (0, 1, 2, 3):
            if _plen(r, lev) * _plen(cc, lev) <= (128 if tier == "quick" else 512):
                out.append(dict(dims=[r, cc], level=lev))
    for dims, lev in (((2, 3, 4), 1), ((2, 3, 4), 2), ((3, 2, 2), 1), ((2, 5, 3), 3)):
        out.append(dict(dims=list(dims), level=lev))
    return out


def haar2_ref(p, x, adjoint=False):
    """numpy transcription of wavedec2(haar) + coeffs_to_array with pylops' padding (search / replay only)."""
    dims, L = list(p["dims"]), p["level"]
    r, cc = dims[-2], dims[-1]
    b = int(np.prod(dims[:-2]))
    P0, P1 = _plen(r, L), _plen(cc, L)
    c = 1 / np.sqrt(2)
    if not adjoint:
        a = np.zeros((b, P0, P1))
        a[:, :r, :cc] = np.asarray(x, dtype=float).reshape(b, r, cc)
        h, w = P0, P1
        for _ in range(L):
            blk = a[:, :h, :w]
            ra, rd = (blk[:, :, 0::2] + blk[:, :, 1::2]) * c, (blk[:, :, 0::2] - blk[:, :, 1::2]) * c
            new = np.empty_like(blk)
            new[:, :h // 2, :w // 2] = (ra[:, 0::2] + ra[:, 1::2]) * c
            new[:, :h // 2, w // 2:] = (rd[:, 0::2] + rd[:, 1::2]) * c
            new[:, h // 2:, :w // 2] = (ra[:, 0::2] - ra[:, 1::2]) * c
            new[:, h // 2:, w // 2:] = (rd[:, 0::2] - rd[:, 1::2]) * c
            a[:, :h, :w] = new
            h, w = h // 2, w // 2
        return a.ravel()
    a = np.asarray(x, dtype=float).reshape(b, P0, P1).copy()
    h, w = P0 >> L, P1 >> L
    for _ in range(L):
        blk = a[:, :2 * h, :2 * w]
        aa, ad, da, dd = blk[:, :h, :w], blk[:, :h, w:], blk[:, h:, :w], blk[:, h:, w:]
        ra = np.empty((b, 2 * h, w)); rd = np.empty((b, 2 * h, w))
        ra[:, 0::2], ra[:, 1::2] = (aa + da) * c, (aa - da) * c
        rd[:, 0::2], rd[:, 1::2] = (ad + dd) * c, (ad - dd) * c
        new = np.empty((b, 2 * h, 2 * w))
        new[:, :, 0::2], new[:, :, 1::2] = (ra + rd) * c, (ra - rd) * c
        a[:, :2 * h, :2 * w] = new
        h, w = 2 * h, 2 * w
    return a[:, :r, :cc].ravel()


def haar2_cases(tier):
    import pylops
    rx = common.rng(PID, "haar2", tier)
    recs = []
    for i, p in enumerate(haar2_grid(tier)):
        rec = dict(id=i, params=p)
        try:
            Op = pylops.signalprocessing.DWT2D(tuple(p["dims"]), wavelet="haar", level=p["level"])
            m, n = int(Op.shape[0]), int(Op.shape[1])
            xs = [np.eye(n)[j] for j in (range(n) if n <= 6 else sorted(rx.sample(range(n), 5)))] + [intvec(rx, n, False) for _ in range(2)]
            ys = [intvec(rx, m, False)]
            rec["fw"] = [(x, np.asarray(Op @ x).ravel()) for x in xs]
            rec["ad"] = [(y, np.asarray(Op.H @ y).ravel()) for y in ys]
        except Exception as e:                                   # noqa: BLE001
            rec["error"] = repr(e)
        recs.append(rec)
    return recs


def _batchlit(v, shape):
    a = np.asarray(v, dtype=float).reshape(shape)
    return "[" + "; ".join(common.mlit(M) for M in a) + "]"


def haar2_emit(d, recs):
    good = [r for r in recs if "error" not in r]
    nsh = max(1, min(16, (len(good) + 5) // 6))
    r2 = common.qlit(_sqrt2_60())
    files = []
    for k in range(nsh):
        sh = good[k::nsh]
        idmap, lits = {}, []
        for lid, rec in enumerate(sh):
            p = rec["params"]
            dims, L = p["dims"], p["level"]
            r, cc = dims[-2], dims[-1]
            b = int(np.prod(dims[:-2]))
            P0, P1 = _plen(r, L), _plen(cc, L)
            idmap[lid] = rec["id"]
            lits.append("{| g_id := %d; g_r := %d; g_c := %d; g_L := %d; g_r2 := %s;\n  g_fw := [%s];\n  g_ad := [%s] |}"
                        % (lid, r, cc, L, r2,
                           ";\n   ".join("(%s, %s)" % (_batchlit(x, (b, r, cc)), _batchlit(y, (b, P0, P1))) for x, y in rec["fw"]),
                           ";\n   ".join("(%s, %s)" % (_batchlit(y, (b, P0, P1)), _batchlit(x, (b, r, cc))) for y, x in rec["ad"])))
        if k == 0:    # canary: 2 x 2, level 1: the aa coefficient of e_00 is 1/2, not 1/4
            idmap[len(sh)] = "canary"
            lits.append("{| g_id := %d; g_r := 2; g_c := 2; g_L := 1; g_r2 := %s;\n  g_fw := [([[[(qz 1); z0]; [z0; z0]]], [[[(q 1 4); (q 1 2)]; [(q 1 2); (q 1 2)]]])]; g_ad := [] |}" % (len(sh), r2))
        Ls = ["From Coq Require Import QArith Qcanon ZArith List. Import ListNotations.",
              "From PV Require Import Dict Vec Dot Mat QcInst GaussQc Check CheckC08.",
              "Definition tol : Qc := q 1 1000000000.",
              "Definition cs : list h2case := [\n " + ";\n ".join(lits) + "].",
              "Eval vm_compute in (failing g_id (h2_check tol) cs)."]
        name = "c08g_%02d" % k
        with open(os.path.join(d, name + ".v"), "w") as f:
            f.write("\n".join(Ls) + "\n")
        files.append((name, idmap))
    return files


def haar2_search(p):
    import pylops
    Op = pylops.signalprocessing.DWT2D(tuple(p["dims"]), wavelet="haar", level=p["level"])
    m, n = int(Op.shape[0]), int(Op.shape[1])
    for adj, N_, f in ((False, n, lambda e: Op @ e), (True, m, lambda e: Op.H @ e)):
        for j in range(N_):
            e = np.eye(N_)[j]
            obs, doc = np.asarray(f(e)).ravel(), haar2_ref(p, e, adjoint=adj)
            if obs.shape != doc.shape:
                return dict(direction="adjoint" if adj else "forward", unit_vector=j, shape_observed=list(obs.shape), shape_documented=list(doc.shape))
            bad = np.abs(obs - doc) > TOL * (1 + np.abs(doc))
            if bad.any():
                k = int(np.argmax(bad))
                return dict(direction="adjoint" if adj else "forward", unit_vector=j, row=k, observed=float(obs[k]), documented=float(doc[k]))
    return None


# ------------------------------------------------------------------ run
def run_cases(tier):
    rs = common.rng(PID, "grid", tier)
    cfgs = fft_grid(tier, rs) + other_grid(tier, rs)
    cases, grams, errors = [], [], []
    rx = common.rng(PID, "x", tier)
    for ci, (fam, p) in enumerate(cfgs):
        try:
            Op = build(fam, p)
        except Exception as e:                                   # noqa: BLE001
            errors.append(dict(family=fam, params=p, kind="construct", error=repr(e)))
            continue
        cplx = is_complex_input(fam, p)
        n = int(Op.shape[1])
        sh = shape_problem(Op)
        if sh:
            errors.append(dict(family=fam, params=p, kind="shape", error=sh))
            continue
        for kind in kinds_for(fam, p):
            x = intvec(rx, n, cplx)
            try:
                r = np.asarray(roundtrip(Op, kind, x)).ravel()
            except Exception as e:                               # noqa: BLE001
                errors.append(dict(family=fam, params=p, kind=kind, error=repr(e), x=[str(complex(t)) for t in x]))
                continue
            cases.append(dict(cfg=ci, family=fam, params=p, kind=kind, cplx=cplx or np.iscomplexobj(r) and np.abs(r.imag).max(initial=0) > 0,
                              x=x, r=r))
        if fam in ("DCT", "DWT", "DWT2D", "DWTND") and n <= (16 if tier == "quick" else 32):
            try:
                cols = [np.asarray(Op @ e).ravel() for e in np.eye(n)]
                grams.append(dict(cfg=ci, family=fam, params=p, cols=cols))
            except Exception as e:                               # noqa: BLE001
                errors.append(dict(family=fam, params=p, kind="columns", error=repr(e)))
    return cfgs, cases, grams, errors


def emit(d, cases, grams):
    """Shard the cases into .v files.  Ids are LOCAL to a file (small nat
    literals); returns [(file, {local id: ('c'|'g'|'canary', index)})]."""
    files = []
    items = [("c", i, c) for i, c in enumerate(cases)] + [("g", i, g) for i, g in enumerate(grams)]
    nsh = max(1, min(32, (len(items) + 149) // 150))
    shards = [items[k::nsh] for k in range(nsh)]
    for k, sh in enumerate(shards):
        name = "c08_%02d" % k
        L = ["From Coq Require Import QArith Qcanon ZArith List. Import ListNotations.",
             "From PV Require Import Dict Vec Dot Mat QcInst GaussQc Check CheckC08.",
             "Definition tol : Qc := q 1 1000000000."]
        rR, rC, gR = [], [], []
        idmap = {}
        for lid, (typ, gi, c) in enumerate(sh):
            idmap[lid] = (typ, gi)
            if typ == "g":
                gR.append("{| gr_id := %d; gr_cols := %s |}" % (lid, common.mlit(c["cols"])))
            elif c["cplx"]:
                rC.append("{| rc_id := %d; rc_x := %s; rc_r := %s |}" % (lid, common.vlit(c["x"], True), common.vlit(c["r"], True)))
            else:
                rR.append("{| rr_id := %d; rr_x := %s; rr_r := %s |}" % (lid, common.vlit(np.real(c["x"])), common.vlit(np.real(c["r"]))))
        if k == 0:   # canaries: a wrong round trip and a non-orthonormal column set must be flagged
            b = len(sh)
            for j in range(3):
                idmap[b + j] = ("canary", j)
            rR.append("{| rr_id := %d; rr_x := [(qz 1); (qz 2); (qz 3)]; rr_r := [(qz 1); (qz 2); (q 7 2)] |}" % b)
            rC.append("{| rc_id := %d; rc_x := [((qz 1), (qz 2))]; rc_r := [((qz 1), (qz (-2)))] |}" % (b + 1))
            gR.append("{| gr_id := %d; gr_cols := [[(qz 1); z0]; [(q 1 2); (qz 1)]] |}" % (b + 2))
        L.append("Definition csR : list rtR := [\n " + ";\n ".join(rR) + "].")
        L.append("Definition csC : list rtC := [\n " + ";\n ".join(rC) + "].")
        L.append("Definition gsR : list gramR := [\n " + ";\n ".join(gR) + "].")
        L.append("Eval vm_compute in (failing rr_id (rt_checkR tol) csR ++ failing rc_id (rt_checkC tol) csC ++ failing gr_id (gram_check tol) gsR).")
        with open(os.path.join(d, name + ".v"), "w") as f:
            f.write("\n".join(L) + "\n")
        files.append((name, idmap))
    return files


def py_bad(x, r):
    x, r = np.asarray(x), np.asarray(r)
    if x.shape != r.shape:
        return True
    return bool(np.any(np.abs(r - x) > TOL * (1 + np.abs(x)) * 1.0000001))


def search(fam, p, kind):
    """Minimal failing input of the property itself on the implementation:
    unit vectors first (real, then imaginary), then small integer vectors."""
    Op = build(fam, p)
    n = int(Op.shape[1])
    cplx = is_complex_input(fam, p)
    cands = [np.eye(n)[j] for j in range(n)]
    if cplx:
        cands += [1j * np.eye(n)[j] for j in range(n)]
    rs = common.rng(PID, "search")
    cands += [intvec(rs, n, cplx) for _ in range(20)]
    for x in cands:
        x = x.astype(complex) if cplx else x.astype(float)
        try:
            r = np.asarray(roundtrip(Op, kind, x)).ravel()
        except Exception as e:                                   # noqa: BLE001
            return dict(x=[str(complex(t)) for t in x], error=repr(e))
        if py_bad(x, r):
            j = int(np.argmax(np.abs(r - x))) if r.shape == x.shape else 0
            nz = int(np.argmax(np.abs(x)))
            ratio = complex(r[nz] / x[nz]) if r.shape == x.shape else None
            return dict(x=[str(complex(t)) for t in x], observed=[str(complex(t)) for t in r], worst_index=j,
                        ratio_at_support=str(ratio), max_abs_err=float(np.abs(r - x).max()) if r.shape == x.shape else None)
    return None


def replay(rp):
    warnings.simplefilter("ignore")
    fam, p, kind = rp["family"], rp["params"], rp["kind"]
    if kind in ("haar", "haar2"):
        try:
            s_ = haar_search(p) if kind == "haar" else haar2_search(p)
        except Exception as e:                                   # noqa: BLE001
            s_ = dict(error=repr(e))
        print(s_)
        print("reproduced" if s_ else "not reproduced")
        return 1 if s_ else 0
    try:
        Op = build(fam, p)
        if kind == "shape":
            sp_ = shape_problem(Op)
            print(sp_)
            bad = sp_ is not None
        elif kind == "gram":
            n = int(Op.shape[1])
            C = np.array([np.asarray(Op @ e).ravel() for e in np.eye(n)])
            bad = bool(np.abs(C.conj() @ C.T - np.eye(n)).max() > TOL)
        else:
            x = np.array([complex(t) for t in rp["x"]])
            if not is_complex_input(fam, p):
                x = x.real.copy()
            r = np.asarray(roundtrip(Op, kind, x)).ravel()
            bad = py_bad(x, r)
            print("x =", x, "\nreturned =", r)
    except Exception as e:                                       # noqa: BLE001
        print("raised:", repr(e))
        bad = True
    print("reproduced" if bad else "not reproduced")
    return 1 if bad else 0


WHAT = {"shape": "shape / dims / dimsd / output lengths are inconsistent", "div_default": "Op.div(Op @ x) != x",
        "iso": "Op.H @ (Op @ x) != x", "div": "Op / (Op @ x) != x", "div_numpy": "Op.div(Op @ x, densesolver='numpy') != x",
        "inv": "Op.inv() @ (Op @ x) != x", "gram": "columns of Op are not orthonormal (Op^H Op != I)"}


def known_match(case):
    for k in PROPOSED_KNOWN + [f for f in common.load_known() if f.get("property") == PID and callable(f.get("match"))]:
        try:
            if k["match"](case):
                return k
        except Exception:                                        # noqa: BLE001
            pass
    return None


def main(tier):
    warnings.simplefilter("ignore")
    R = common.Report(PID, tier)
    common.coq_build()
    build_own()
    thms, axioms = common.props_assumptions(PID)
    t0 = time.time()
    cfgs, cases, grams, errors = run_cases(tier)
    t_py = time.time() - t0
    d = common.workdir(PID)
    files = emit(d, cases, grams)
    t0 = time.time()
    outs = common.run_coq_files(d, [n for n, _ in files])
    failing = set()          # ('c', case index) | ('g', gram index)
    canaries = set()
    for n, idmap in files:
        for lid in common.parse_failing(outs[n]):
            typ, gi = idmap[lid]
            (canaries if typ == "canary" else failing).add((typ, gi))
    hrecs = haar_cases(tier)
    hfiles = haar_emit(d, hrecs)
    houts = common.run_coq_files(d, [n for n, _ in hfiles])
    hfail, hcan = {}, False
    for n, idmap in hfiles:
        for lid, codes in common.parse_failing(houts[n]).items():
            if idmap[lid] == "canary":
                hcan = True
            else:
                hfail[idmap[lid]] = codes
    if not hcan:
        raise SystemExit("C08 Haar canary not flagged: the Coq comparison pipeline is broken")
    grecs = haar2_cases(tier)
    gfiles = haar2_emit(d, grecs)
    gouts = common.run_coq_files(d, [n for n, _ in gfiles])
    gfail, gcan = {}, False
    for n, idmap in gfiles:
        for lid, codes in common.parse_failing(gouts[n]).items():
            if idmap[lid] == "canary":
                gcan = True
            else:
                gfail[idmap[lid]] = codes
    if not gcan:
        raise SystemExit("C08 Haar-2D canary not flagged: the Coq comparison pipeline is broken")
    t_coq = time.time() - t0
    if canaries != {("canary", 0), ("canary", 1), ("canary", 2)}:
        raise SystemExit("C08 canaries not flagged (%s): the Coq comparison pipeline is broken" % sorted(canaries))
    reported = set()
    egroups = {}
    for e in errors:       # one representative per (family, stage, exception type / first words)
        egroups.setdefault((e["family"], e["kind"], e["error"].split("(")[0][:40]), []).append(e)
    for key in sorted(egroups, key=str)[:40]:
        lst = egroups[key]
        e = min(lst, key=lambda t: len(str(t["params"])))
        reported.add(key)
        more = " [+%d more configurations failing this way]" % (len(lst) - 1) if len(lst) > 1 else ""
        R.violation(("%s: %s: %s %s" if e["kind"] == "shape" else "%s raised on a valid configuration (%s): %s %s") % (e["family"], WHAT["shape"] if e["kind"] == "shape" else e["kind"], e["params"], e["error"]) + more,
                    dict(family=e["family"], params=e["params"], kind=e["kind"] if e["kind"] in WHAT else "iso", error=e["error"],
                         x=e.get("x", ["1"] * 1)))
    # group the failing cases: one searched representative (smallest) per
    # (family, engine, norm, real, type/wavelet, kind); the others are counted
    groups = {}
    for typ, gi in sorted(failing):
        if typ == "g":
            c = grams[gi]
            kind = "gram"
        else:
            c = cases[gi]
            kind = c["kind"]
        k = known_match(dict(family=c["family"], params=c["params"], kind=kind))
        if k:
            R.known_finding(k["id"], k["what"])
            continue
        p = c["params"]
        gk = (c["family"], p.get("engine"), p.get("norm"), p.get("real"), p.get("type"), p.get("wavelet"), p.get("sparse"), p.get("mkind"), kind)
        groups.setdefault(gk, []).append((len(c.get("x", c.get("cols", []))), typ, gi, kind, c))
    for gk in sorted(groups, key=str)[:60]:
        lst = sorted(groups[gk], key=lambda t: t[:3])
        _, typ, gi, kind, c = lst[0]
        more = " [+%d more failing configurations of this kind]" % (len(lst) - 1) if len(lst) > 1 else ""
        reported.add(gk)
        what = "%s for %s(%s)" % (WHAT[kind], c["family"], ", ".join("%s=%r" % kv for kv in c["params"].items() if kv[0] != "A" or len(kv[1]) <= 3))
        if kind == "gram":
            R.violation(what + more, dict(family=c["family"], params=c["params"], kind=kind))
            continue
        s = search(c["family"], c["params"], kind)
        if s is None:
            # the recorded case itself is a failing input if it fails in python too
            if py_bad(c["x"], c["r"]):
                s = dict(x=[str(complex(t)) for t in c["x"]], observed=[str(complex(t)) for t in c["r"]])
        if s is None:
            R.violation("correspondence no longer checks (Coq: returned vector not close to x) but no failing input was found: " + what + more,
                        dict(family=c["family"], params=c["params"], kind=kind, broken="Corr.CheckC08.rt_check (theorems C08_fft_div_inverts / C08_fft_unitary_ortho predict x)",
                             x=[str(complex(t)) for t in c["x"]]), no_input=True)
        else:
            rp = dict(family=c["family"], params=c["params"], kind=kind)
            rp.update(s)
            R.violation(what + (" (observed ratio %s)" % s.get("ratio_at_support") if s.get("ratio_at_support") else "") + more, rp)
    hbad = 0
    hlist = [r for r in hrecs if "error" in r or r["id"] in hfail]
    hbad = len(hlist)
    for gi, r in enumerate(sorted(hlist, key=lambda r: (int(np.prod(r["params"]["dims"])), r["params"]["level"], r["id"]))[:3]):
        p = r["params"]
        more = " [%d Haar configurations fail in total]" % hbad if gi == 0 and hbad > 1 else ""
        if "error" in r:
            R.violation("DWT(haar) raised on a valid configuration: %s %s%s" % (p, r["error"], more), dict(family="DWT", params=p, kind="haar", error=r["error"]))
            continue
        s_ = haar_search(p)
        rp = dict(family="DWT", params=p, kind="haar", coq_codes=hfail[r["id"]])
        if s_:
            rp.update(s_)
            R.violation("DWT(wavelet='haar', dims=%s, axis=%s, level=%s) is not the Haar transform of Ops/Haar.v: %s%s" % (p["dims"], p["axis"], p["level"], s_, more), rp)
        else:
            rp.update(broken="Corr.CheckC08.h_check (implementation matrix vs Haar model; theorems C08_haar_*)")
            R.violation("DWT(haar) %s disagrees with the Coq Haar model but the numpy transcription agrees%s" % (p, more), rp, no_input=True)
    glist = [r for r in grecs if "error" in r or r["id"] in gfail]
    gbad = len(glist)
    for gi, r in enumerate(sorted(glist, key=lambda r: (int(np.prod(r["params"]["dims"])), r["params"]["level"], r["id"]))[:3]):
        p = r["params"]
        more = " [%d DWT2D(haar) configurations fail in total]" % gbad if gi == 0 and gbad > 1 else ""
        if "error" in r:
            R.violation("DWT2D(haar) raised on a valid configuration: %s %s%s" % (p, r["error"], more), dict(family="DWT2D", params=p, kind="haar2", error=r["error"]))
            continue
        s_ = haar2_search(p)
        rp = dict(family="DWT2D", params=p, kind="haar2", coq_codes=gfail[r["id"]])
        if s_:
            rp.update(s_)
            R.violation("DWT2D(wavelet='haar', dims=%s, level=%s) is not the 2-D Haar transform of Ops/Haar2D.v: %s%s" % (p["dims"], p["level"], s_, more), rp)
        else:
            rp.update(broken="Corr.CheckC08.h2_check (implementation vs 2-D Haar model; theorems C08_haar2d_*)")
            R.violation("DWT2D(haar) %s disagrees with the Coq 2-D Haar model but the numpy transcription agrees%s" % (p, more), rp, no_input=True)
    if axioms and not set(axioms) <= common.ALLOWED_AXIOMS:
        R.violation("Props/C08.v depends on unexpected axioms %s" % axioms, {"axioms": axioms}, no_input=True)
    # ---- coverage
    nontriv = set()
    dist = {}
    for c in cases:
        y_nonzero = bool(np.any(c["r"]))
        if np.any(c["x"]) and y_nonzero:
            nontriv.add((c["cfg"], c["kind"], np.asarray(c["x"]).tobytes()))
        p = c["params"]
        key = c["family"] + ("/" + p["engine"] + "/" + p["norm"] if "engine" in p else "") + ("/" + p["mkind"] if "mkind" in p else "") + "/" + c["kind"]
        dist[key] = dist.get(key, 0) + 1
    for g in grams:
        nontriv.add((g["cfg"], "gram"))
    nfail = sum(len(v) for v in groups.values())
    R.cov.update(
        obligations=len(thms) + len(cases) + len(grams) + len(hrecs) + len(grecs),
        discharged=len(thms) + len(cases) + len(grams) + len(hrecs) + len(grecs) - len([c for c in failing]) - hbad - gbad,
        checker_cmd="make -C coq; coqc Ops/DFT.v Ops/DFTEngines.v Corr/CheckC08.v Props/C08.v (Print Assumptions); coqc .work/C08/c08_*.v "
                    "(vm_compute: returned vector vs x, Gram matrix vs identity, tol 1e-9)",
        theorems=thms, axioms_reported=axioms, evaluations=len(cases) + len(grams) + sum(len(r.get('cols', [])) + 2 for r in hrecs) + sum(len(r.get('fw', [])) + len(r.get('ad', [])) for r in grecs), haar_configurations=len(hrecs), haar2d_configurations=len(grecs), distinct_nontrivial=len(nontriv),
        rule="x: integers in [-9,9] (Gaussian integers for complex-linear configurations); FFT/FFT2D/FFTND over engines x norms x real x dtype x "
             "shifts x axes x nfft in n+{0,1,2,5}; Op.H@(Op@x) for ortho and Op/(Op@x) for every norm; DCT types 1-4 all axis subsets; "
             "DWT/DWT2D/DWTND orthogonal wavelets, lengths multiple of 2^level (+ Gram matrix of columns for n<=16/32) and levels deeper than the length supports (2^level > padded n: H, '/', div); shape/dims/dimsd/output-length consistency of every operator; MatrixMult real A with complex right-hand side; Flip, Roll, Transpose, "
             "square Identity; MatrixMult unimodular integer / Gaussian-integer matrices dense/csc/csr, wrapped or not: inv(), '/', "
             "div(densesolver=numpy), tall full-column-rank for the lstsq branch; structured full-rank matrices (complex symmetric non-Hermitian, complex diagonal, complex scaled identity, real symmetric, Hermitian, real/complex triangular). non-trivial = distinct (configuration, kind, x) with x != 0 and result != 0",
        configurations=len(cfgs), distribution=dist, implementation_errors=len(errors), failing_configurations=nfail,
        modelled="FFT/FFT2D/FFTND (Ops/DFT.v, Ops/DFTEngines.v), Flip/Roll/Transpose/Identity as index maps",
        l1_only="DCT (scipy), DWT/DWT2D/DWTND for non-Haar wavelets and 2-D/N-d transforms (pywt); DWT(haar) along an axis and DWT2D(haar) (last two axes, leading batch axes) are MODELLED (Ops/Haar.v, Ops/Haar2D.v; compared in Coq over Q(sqrt 2)); MatrixMult.inv and explicit '/' (LAPACK / SuperLU are oracles)",
        t_python=round(t_py, 1), t_coq=round(t_coq, 1))
    R.samples = [dict(family=c["family"], params={k: v for k, v in c["params"].items() if k != "A"}, kind=c["kind"],
                      x=[str(t) for t in c["x"][:5]], returned=[str(t) for t in c["r"][:5]])
                 for c in cases[::max(1, len(cases) // 6)]]
    return R.finish()
