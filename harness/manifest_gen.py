"""Generates MANIFEST.json from the per-property table below."""
import json
import os

V = os.path.dirname(os.path.dirname(os.path.abspath(__file__)))

CHECKS = {
    "C01": ("Theorem C01_adjoint_of_matrix (Coq, all matrices over any star ring, all u, v): <A u,v> = <u,A^H v>; per zoo configuration the obligation 'adjoint matrix = conjugate transpose of forward matrix' is evaluated inside Coq (vm_compute over exact rationals / Gaussian rationals) on matrices extracted from the running implementation, which instantiates the theorem for all vectors; family models (Ops/) prove adjointness for all sizes.",
            "proof about hand-written model + behavioural correspondence (matrix extraction by unit vectors, operator = mv of its matrix checked on non-basis inputs); tolerance 1e-9(1+|.|); numpy/scipy/numba/pyfftw/pywt are oracles; configurations limited to the zoo grid",
            "Coq theorem + in-Coq evaluation of extracted matrices", "4 C01"),
    "C02": ("Theorem C02_mv_linear / C02_mv_zero / C02_mv_unit (Coq, every matrix, all x, y, a, b); the model of an operator is multiplication by the matrix extracted from it, and the correspondence (implementation output = mv A x on random integer vectors, exact linear combinations and zero, both directions) is evaluated inside Coq.",
            "as C01; inputs are small-integer (Gaussian-integer) vectors so that linear combinations are exact",
            "Coq theorem + in-Coq correspondence impl vs mv(A_impl)", "4 C02"),
}


def main():
    man = {
        "version": 1,
        "setup_cmd": "cd /verif/coq && coq_makefile -f _CoqProject -o Makefile && timeout 3000 make -j16",
        "hooks": {"guard": "PYLOPS_VERIF", "enable": "no source hooks are needed; checks run /repo's working tree through PYTHONPATH=/repo",
                  "baseline_off_cmd": "cd /repo && /venv/bin/python -m pytest -ra -q -p no:cacheprovider --timeout=900 --continue-on-collection-errors",
                  "source_commits": [], "add_only": True},
        "engines": [{"name": "coq-model+correspondence", "path": "/verif/check", "serves_properties": sorted(CHECKS),
                     "kind_free_text": "Coq 8.16.1 development (coq/theories) + Python differential harness evaluating the Gallina model inside Coq"}],
        "checks": [],
        "not_applicable": [],
        "notes": "See DESIGN.md. fix: commits in /repo and known findings are listed in known_findings.json.",
    }
    allp = [json.loads(l)["id"] for l in open(os.path.join(V, "properties.jsonl"))]
    for pid in allp:
        if pid in CHECKS:
            text, note, tech, ref = CHECKS[pid]
            man["checks"].append({
                "property_id": pid, "quick_cmd": "./check %s quick" % pid, "thorough_cmd": "./check %s thorough" % pid,
                "evidence_file": "/verif/evidence/%s.json" % pid, "replay_cmd_template": "./check replay {path}",
                "engine": "coq-model+correspondence",
                "level_claimed": {"category": "proof", "text": text, "design_ref": "DESIGN.md section " + ref},
                "level_note": note, "technique": tech})
        else:
            man["not_applicable"].append({"property_id": pid, "reason": "check not built yet in this round (planned: see DESIGN.md section 4 %s); no claim is made" % pid})
    with open(os.path.join(V, "MANIFEST.json"), "w") as f:
        json.dump(man, f, indent=1)


if __name__ == "__main__":
    main()
