"""Generates MANIFEST.json from the per-property table below."""
import json
import os

V = os.path.dirname(os.path.dirname(os.path.abspath(__file__)))

NOTE = ("proof about a hand-written Gallina model tied to /repo by a behavioural correspondence evaluated inside Coq (vm_compute over exact rationals / Gaussian rationals) on inputs the real code was just run on; "
        "trusted: Coq kernel + vm_compute, the model's faithfulness beyond the explored inputs, the Python harness (generation, float->dyadic conversion, literal emitters, parsers), numerical libraries as oracles; tolerance 1e-9 (1e-7 for solver iterates)")

CHECKS = {
    "C01": ("Theorems C01_adjoint_of_matrix / C01_adjoint_unique (all matrices over any star ring, all u, v): <A u,v> = <u,A^H v> and conversely; per zoo configuration the obligation 'adjoint matrix = conjugate transpose of forward matrix' is evaluated inside Coq on matrices extracted from the running implementation, which instantiates the theorem for all vectors; family models (Ops/) prove adjointness for all sizes.",
            "Coq theorem + in-Coq evaluation of extracted matrices", "4 C01"),
    "C02": ("Theorems C02_mv_linear / C02_mv_zero / C02_mv_unit (every matrix, all x, y, a, b); the model of an operator is multiplication by the matrix extracted from it, and the correspondence (implementation output = mv A x on random integer vectors, exact linear combinations and zero, both directions) is evaluated inside Coq.",
            "Coq theorem + in-Coq correspondence impl vs mv(A_impl)", "4 C02"),
    "C03": ("Deep embedding of operator expressions (Algebra/Expr.v): theorems by structural induction for every nesting depth and operator mix: ap Fwd e = mv (dense e), ap Adj e = mv (dense e)^H, matmat = columnwise matvec, H/T/conj rules, involutions, adjoint of a compound is well-formed with swapped shape; random expression trees are built both as pylops objects and as Gallina terms and compared inside Coq.",
            "structural induction over expression trees + differential execution of trees", "4 C03"),
    "C04": ("Pure decision model of LinearOperator.dot / reshaped / forceflat (State/DotDispatch.v) with theorems dispatch_dims/cols/flat/rejects/flag_off, and the global N-d flag as a state machine (State/ConfigFlag.v) with flag_restored for every program nesting and exception position; outcome classes and shapes of the implementation are compared with the model inside Coq for operators x input layouts x flag values, and all flag programs up to a depth are executed with real with-blocks.",
            "Coq decision-logic model + exhaustive small flag programs + layout grid", "4 C04"),
    "C05": ("Per interchangeable pair of engines / flags the two dense matrix pairs extracted from the implementation are compared inside Coq (equal matrices => equal on all inputs by mv extensionality, Props/C05.v); FFT engine models (Ops/DFTEngines.v) are proved equal for all sizes.",
            "Coq theorem (matrix equality => map equality) + in-Coq comparison of engine pairs", "4 C05"),
    "C06": ("Interleaving semantics of parallel loops (State/Par.v): disjoint per-iteration footprints => every partition and interleaving equals sequential execution; overlapping updates => a lost-update schedule exists. Footprints of every numba prange kernel are measured on the real kernel bodies and their disjointness is decided inside Coq; runtime runs with several thread counts support the search.",
            "Coq schedule-independence theorem + measured footprints of real kernels", "4 C06"),
    "C07": ("Code-shaped models and documented-formula specifications of the elementary operators (Ops/*.v) with theorems model = spec and adjoint pair for all sizes/parameters; the implementation's dense matrices are compared inside Coq with the specification matrices over the documented parameter grid.",
            "Coq spec theorems + in-Coq comparison of implementation matrices with documented formulas", "4 C07"),
    "C08": ("DFT over an abstract ring with a principal root of unity (Ops/DFT.v): adjoint, inversion, unitarity for ortho, zero-padding, per-engine scale placement and '/' (DFTEngines.v); round trips Op.H Op x, Op/(Op x), inv() of the implementation on exact inputs are compared with x inside Coq.",
            "Coq DFT theorems + in-Coq round-trip checks", "4 C08"),
    "C09": ("State-machine models of CG / CGLS (Solvers/CG.v, CGLS.v) mirroring setup/step/run; theorems: residual invariants for all k, cgls simulates cg on the normal equations; per-iteration iterates of the implementation are compared with the exact rational model, the model's n-th iterate is certified to solve the (damped) normal equations exactly; lsqr is compared iterate by iterate with SciPy's lsqr.",
            "Coq invariants by induction + exact-rational replay of solver iterates", "4 C09"),
    "C10": ("Same models as C09 extended with cost history and callback log: |cost| = 1 + iiter, callbacks are the iterates in order, cost entries equal true residual norms (squares compared exactly), cgls r1norm/r2norm; functional monotone; returned tuples and logs of the implementation compared with the model inside Coq.",
            "Coq theorems on diagnostics + exact replay", "4 C10"),
    "C11": ("Generic solver driver state machine (Solvers/Drivers.v): run_split / run = step^k / solve = setup;run;finalize for all driving programs; the three driving styles of every solver are executed on the implementation on random programs and compared; inputs are compared bitwise before/after, aliasing and the global flag are observed after every call.",
            "Coq driver theorems + differential execution of driving programs + byte/alias observation", "4 C11"),
    "C12": ("Documented augmented least-squares functional and its normal equations (Solvers/LeastSquares.v): normal_eq_minimises (all problems), assembly_normal_correct, stack_normal_eq, x0 shift, preconditioned change of variables, three_agree; returned x of every formulation/engine is certified inside Coq against the exact normal equations N x = rhs, assemblies compared exactly.",
            "Coq optimality theorem + in-Coq certificate checking of returned solutions", "4 C12"),
    "C13": ("Threshold functions and ISTA step over an ordered field (Solvers/Thresh.v, ISTA.v): soft is the prox of t|.|, descent of the objective under the step-size premise from any x, fixed point <=> KKT; thresholds and ISTA/FISTA iterates of the implementation are compared with the exact model inside Coq, objective monotonicity evaluated exactly.",
            "Coq prox/descent theorems + exact replay of iterates", "4 C13"),
    "C14": ("OMP / matching pursuit state machine (Solvers/OMP.v) with selection as a relation: support, residual orthogonality on every reachable state, cost truthful and monotone, MP step identity; the implementation's runs are replayed on exact rationals with its own choices and every clause is checked inside Coq (exact Gauss-Jordan on the restricted normal equations).",
            "Coq invariants over reachable states + exact replay with certificate", "4 C14"),
    "C15": ("Operator state patterns (State/Buffered.v): history independence and no-alias theorems for buffered (FFTW-plan) operators and idempotent cache rewrites; random call histories on every zoo operator are compared with a fresh instance and with mv(A_impl), inputs bitwise unchanged, earlier results unchanged, alias maps observed.",
            "Coq history-independence theorem + call-history differential testing", "4 C15"),
    "C16": ("MemoizeOperator state machine (State/Memoize.v): for every history each call returns Op_d x' for a stored-or-current x' close to x, store bounded by max_neval, one evaluation per miss; random histories (repeats, feedback of outputs, near-equal inputs, caller mutation) are run on the implementation and compared with the model inside Coq and with the bare operator.",
            "Coq invariant over all histories + differential history execution", "4 C16"),
    "C17": ("Theorems C17_dense_of_columns / C17_dense_of_adjoint_columns / ctranspose_involutive (both paths of todense of the matrix model return the matrix of columns Op e_j); todense(), tosparse(), A, explicit trace, eigs() (power-sum certificate) and Op / y of the implementation are compared inside Coq with the matrix of columns.",
            "Coq transposition theorems + in-Coq comparison of views and exact certificates", "4 C17"),
    "C18": ("Model of the dot-test verdict (State/DotTest.v): accepts every exact adjoint pair for all u, v, tolerances; rejects (1+d)-scaled adjoints above tolerance; verdict is the isclose predicate of the defect u^H(B - A^H)v; the random vectors dottest draws are re-derived, passed exactly to Coq, and the Coq verdict compared with the function's return value / AssertionError.",
            "Coq verdict theorems + exact re-evaluation of each dottest call", "4 C18"),
    "C19": ("Gradient identity and layout logic of the autodiff wrappers (State/Autodiff.v): vjp is the adjoint, expansion of ||A(x+td)-y||^2, batch-axis permutations are inverse, batched application acts row-wise for all ranks; forward values and reverse-mode gradients from torch, jax and pytensor are compared inside Coq with mv M x and mvT M g.",
            "Coq identities + in-Coq comparison of framework gradients", "4 C19"),
    "C20": ("Models of convmtx, the dense derivative matrices and the matrix-free chains (Ops/Seismic.v) with equality theorems; dense matrices of explicit and matrix-free post-stack / pre-stack / MDC constructions of the implementation are compared with each other and with the model inside Coq. The Zoeppritz-limit clause is not claimed.",
            "Coq equality theorems + in-Coq comparison of both constructions", "4 C20"),
}

READY = ["C01", "C02", "C03", "C04", "C05", "C06", "C07", "C08", "C09", "C10", "C11", "C12", "C13", "C14", "C15", "C16", "C17", "C18", "C19", "C20"]


def main():
    man = {
        "version": 1,
        "setup_cmd": "cd /verif/coq && coq_makefile -f _CoqProject -o Makefile && timeout 3000 make -j16",
        "hooks": {"guard": "PYLOPS_VERIF", "enable": "no source hooks are needed; checks run /repo's working tree through PYTHONPATH=/repo",
                  "baseline_off_cmd": "cd /repo && /venv/bin/python -m pytest -ra -q -p no:cacheprovider --timeout=900 --continue-on-collection-errors",
                  "source_commits": [], "add_only": True},
        "engines": [{"name": "coq-model+correspondence", "path": "/verif/check", "serves_properties": sorted(READY),
                     "kind_free_text": "Coq 8.16.1 development (coq/theories) + Python differential harness evaluating the Gallina model inside Coq"}],
        "checks": [],
        "not_applicable": [],
        "notes": "See DESIGN.md. fix: commits in /repo and known findings are listed in known_findings.json.",
    }
    allp = [json.loads(l)["id"] for l in open(os.path.join(V, "properties.jsonl"))]
    for pid in allp:
        if pid in READY:
            text, tech, ref = CHECKS[pid]
            note = NOTE
            man["checks"].append({
                "property_id": pid, "quick_cmd": "./check %s quick" % pid, "thorough_cmd": "./check %s thorough" % pid,
                "evidence_file": "/verif/evidence/%s.json" % pid, "replay_cmd_template": "./check replay {path}",
                "engine": "coq-model+correspondence",
                "level_claimed": {"category": "proof", "text": text, "design_ref": "DESIGN.md section " + ref},
                "level_note": note, "technique": tech})
        else:
            man["not_applicable"].append({"property_id": pid, "reason": "check not built yet in this round (planned: see DESIGN.md section 4 %s); no claim is made" % pid})
    with open(os.path.join(V, "MANIFEST.json"), "w") as f:
        json.dump(man, f, indent=1)


if __name__ == "__main__":
    main()
