#!/usr/bin/env python3
"""tools/keepseed.py <PID> <k> <caught-by comma list or 'MISSED'> <needs text> — stores a confirmed seeded change under /verif/seeded/<PID>-<k>/."""
import json, os, shutil, sys
pid, k, caught, needs = sys.argv[1], sys.argv[2], sys.argv[3], sys.argv[4]
src = os.environ.get("SEEDSRC", "/tmp/seed") + "/%s" % pid
dst = "/verif/seeded/%s-%s%s" % (pid, os.environ.get("SEEDTAG", ""), k)
os.makedirs(dst, exist_ok=True)
shutil.copy(os.path.join(src, "patch_%s.diff" % k), os.path.join(dst, "patch.diff"))
shutil.copy(os.path.join(src, "demo_%s.py" % k), os.path.join(dst, "demo.py"))
files = sorted(set(l.split()[1][2:] for l in open(os.path.join(dst, "patch.diff")) if l.startswith("+++ ")))
meta = {"property": pid, "breaks": "property %s (see demo.py: exits 1 with the patch, 0 without)" % pid, "files_touched": files,
        "needs_to_manifest": needs,
        "confirmed_by": ["tools/seedtest.sh: patch applied to a scratch copy of /repo/pylops; demo.py exits 1 with the patch and 0 on /repo",
                         "the seeding agent ran the whole pytest suite with the patch: only baseline/flaky failures"],
        "caught_by": [] if caught == "MISSED" else caught.split(","), "checked_with": "./check <ID> quick against the patched copy (PYLOPS_REPO)"}
json.dump(meta, open(os.path.join(dst, "meta.json"), "w"), indent=1)
print(dst)
