#!/bin/sh
# tools/seedall.sh  "<seeddir> <k> <PID>" ...   sequentially (checks of one PID share a work directory)
for job in "$@"; do set -- $job; echo "=== $1 patch_$2 -> $3"; /verif/tools/seedtest.sh /tmp/seed/$1/patch_$2.diff /tmp/seed/$1/demo_$2.py $3; done
