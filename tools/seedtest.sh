#!/bin/sh
# tools/seedtest.sh <patch.diff> <demo.py|-> <PID> [<PID>...]
# Applies a seeded change to a scratch COPY of /repo/pylops (so that nothing
# else running against /repo is disturbed), runs the demonstration and the
# listed checks (quick tier) against it, prints one line per check.
patch=$(readlink -f "$1"); demo=$2; shift 2
d=$(mktemp -d /tmp/seedtest.XXXXXX)
cp -r /repo/pylops "$d/pylops"
( cd "$d" && patch -s -p1 < "$patch" ) || { echo "PATCH DOES NOT APPLY"; rm -rf "$d"; exit 2; }
if [ "$demo" != "-" ]; then
  # the script's own directory comes first on sys.path: run copies placed next to the tree under test
  cp "$demo" "$d/_demo.py"; mkdir -p "$d/clean"; cp "$demo" "$d/clean/_demo.py"
  ( cd "$d" && PYTHONPATH="$d" /venv/bin/python -W ignore "$d/_demo.py" >/dev/null 2>&1 ); echo "demo with patch: exit $?"
  ( cd "$d/clean" && PYTHONPATH=/repo /venv/bin/python -W ignore "$d/clean/_demo.py" >/dev/null 2>&1 ); echo "demo without patch: exit $?"
fi
cd /verif
for p in "$@"; do
  out=$(PYLOPS_REPO="$d" VERIF_EVIDENCE_DIR="$d/evidence" ./check "$p" quick 2>&1)
  rc=$?
  echo "$p: exit $rc; $(echo "$out" | grep -c '^VIOLATION') violation lines; $(echo "$out" | grep '^VIOLATION' | grep -c no-failing-input-found) without input"
  echo "$out" | grep -A1 '^VIOLATION' | grep -v '^VIOLATION\|^--' | head -3 | cut -c1-230
done
rm -rf "$d"
