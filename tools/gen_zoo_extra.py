#!/usr/bin/env python3
"""Freeze random zoo configurations that are valid on the unchanged tree (see harness/zoo_random.py).
usage: PYTHONPATH=/repo:/verif /venv/bin/python tools/gen_zoo_extra.py [per_family]"""
import json, subprocess, sys, warnings
warnings.filterwarnings("ignore")
sys.path.insert(0, "/verif")
import numpy as np
from harness import zoo, zoo_random, l1
per = int(sys.argv[1]) if len(sys.argv) > 1 else 30
fixed = set(f + json.dumps(p, sort_keys=True) for f, p in zoo.grid("thorough", extra=False))
seen, keep, rejected = set(), [], {}
for fam, p in zoo_random.sample("v1", per):
    key = fam + json.dumps(p, sort_keys=True)
    if key in seen or key in fixed:
        continue
    seen.add(key)
    try:
        op = zoo.build(fam, p)
        W = l1.Wrapped(op)
        if W.N > 72 or W.M > 72 or W.N == 0 or W.M == 0:
            rejected.setdefault("size", []).append(key); continue
        A, B = W.matrices()
        if not (np.isfinite(A).all() and np.isfinite(B).all()):
            rejected.setdefault("nonfinite", []).append(key); continue
        err = np.abs(B - A.conj().T).max(initial=0)
        if err > 1e-10 * (1 + np.abs(A).max(initial=0)):
            rejected.setdefault("ADJOINT-MISMATCH (look at these!)", []).append((key, float(err))); continue
        keep.append([fam, p])
    except Exception as e:
        rejected.setdefault("%s: %s" % (type(e).__name__, str(e)[:60]), []).append(key)
commit = subprocess.run(["git", "-C", "/repo", "rev-parse", "--short", "HEAD"], stdout=subprocess.PIPE, text=True).stdout.strip()
json.dump({"generated_on_repo_commit": commit, "sampler_seed": "v1", "configs": keep}, open("/verif/harness/zoo_extra.json", "w"), indent=0)
print("kept", len(keep))
for k, v in rejected.items():
    print(len(v), k, v[:2])
